#!/venv/bin/python
"""Entry point: check.py <property> [--tier quick|thorough] [--replay FILE] (see DESIGN.md)."""
import os
import sys

_want = os.environ.get("VERIF_HASHSEED", "0")
if os.environ.get("PYTHONHASHSEED") != _want:
    # one fixed hash seed for the whole process tree (selftest/determinism.py runs under others)
    os.environ["PYTHONHASHSEED"] = _want
    os.execv(sys.executable, [sys.executable] + sys.argv)
sys.dont_write_bytecode = True
sys.path.insert(0, os.path.dirname(os.path.abspath(__file__)))
from crysim.driver import main  # noqa: E402

if __name__ == "__main__":
    sys.exit(main())
