#!/venv/bin/python
"""Entry point: check.py <property> [--tier quick|thorough] [--replay FILE] (see DESIGN.md)."""
import os
import sys

if os.environ.get("PYTHONHASHSEED") != "0":
    # one fixed hash seed for the whole process tree (determinism is also self-tested under others)
    os.environ["PYTHONHASHSEED"] = "0"
    os.execv(sys.executable, [sys.executable] + sys.argv)
sys.dont_write_bytecode = True
sys.path.insert(0, os.path.dirname(os.path.abspath(__file__)))
from crysim.driver import main  # noqa: E402

if __name__ == "__main__":
    sys.exit(main())
