"""setup smoke test: the kernel can fork a pristine child that imports crysp from the working
tree and hashes 'abc'."""
import os
import sys

sys.dont_write_bytecode = True
sys.path.insert(0, os.path.dirname(os.path.dirname(os.path.abspath(__file__))))
from crysim import kernel  # noqa: E402
from crysim.base import B  # noqa: E402

h = kernel.run_plan({"objects": [{"kind": "SHA1"}], "steps": [{"id": 1, "k": "call", "obj": 0, "args": [B(b"abc")]}]})
assert h[0]["out"] == ["ok", {"b": "a9993e364706816aba3e25717850c26c9cd0d89d"}], h
print("crysim smoke ok")
