#!/venv/bin/python
"""Confirm a sub-agent's seeded change independently and adopt it as /verif/seeded/<id>/.
usage: adopt_seed.py <src dir with patch.diff demo.py meta.json> <id> [property]
Confirms, in a scratch copy of /repo outside /repo and /verif (removed afterwards): the patch
applies, the 120 baseline tests pass with it, demo.py fails with it and passes without it."""
import json
import os
import shutil
import subprocess
import sys
import tempfile

VERIF = os.path.dirname(os.path.dirname(os.path.abspath(__file__)))
src, sid = sys.argv[1], sys.argv[2]
meta = json.load(open(os.path.join(src, "meta.json")))
prop = sys.argv[3] if len(sys.argv) > 3 else meta["property"]
scratch = tempfile.mkdtemp(prefix="crysim-adopt-")
ran = []
try:
    dst = os.path.join(scratch, "repo")
    shutil.copytree("/repo", dst, ignore=shutil.ignore_patterns(".git", "__pycache__", "*.pyc", ".pytest_cache"))
    env0 = dict(os.environ, PYTHONPATH="/repo", PYTHONDONTWRITEBYTECODE="1")
    env1 = dict(os.environ, PYTHONPATH=dst, PYTHONDONTWRITEBYTECODE="1")
    d0 = subprocess.run(["/venv/bin/python", os.path.join(src, "demo.py")], cwd=scratch, env=env0, capture_output=True, text=True, timeout=900)
    ran.append("demo.py on unmodified /repo -> exit %d" % d0.returncode)
    p = subprocess.run(["patch", "-p1", "-s", "-i", os.path.abspath(os.path.join(src, "patch.diff"))], cwd=dst, capture_output=True, text=True)
    ran.append("patch -p1 < patch.diff -> exit %d" % p.returncode)
    t = subprocess.run(["/venv/bin/python", "-m", "pytest", "-q", "-p", "no:cacheprovider", "--timeout=900"], cwd=dst, env=env1, capture_output=True, text=True)
    tl = t.stdout.strip().splitlines()[-1] if t.stdout.strip() else "?"
    ran.append("pytest with the change -> %s" % tl)
    d1 = subprocess.run(["/venv/bin/python", os.path.join(src, "demo.py")], cwd=scratch, env=env1, capture_output=True, text=True, timeout=900)
    ran.append("demo.py with the change -> exit %d" % d1.returncode)
    ok = p.returncode == 0 and d0.returncode == 0 and d1.returncode != 0 and tl.startswith("120 passed")
    for r in ran:
        print(r)
    if not ok:
        print("NOT CONFIRMED", (d0.stdout + d0.stderr)[-300:], (d1.stdout + d1.stderr)[-300:])
        sys.exit(1)
    out = os.path.join(VERIF, "seeded", sid)
    os.makedirs(out, exist_ok=True)
    shutil.copy(os.path.join(src, "patch.diff"), out)
    shutil.copy(os.path.join(src, "demo.py"), out)
    m = {"property": prop, "summary": meta.get("summary"), "needs_to_manifest": meta.get("needs_to_manifest"),
         "files_changed": meta.get("files_changed"), "author": "independent sub-agent (saw only the property text and a scratch worktree)",
         "confirmed_by_me": ran}
    json.dump(m, open(os.path.join(out, "meta.json"), "w"), indent=1)
    print("ADOPTED", out)
finally:
    shutil.rmtree(scratch, ignore_errors=True)
