#!/venv/bin/python
"""(Re)generate /verif/mutants/*.diff + catalog.json from the replacement list below, against the
current /repo working tree.  Each entry: (name, [properties], file, old, new, note)."""
import difflib
import json
import os
import subprocess

REPO = "/repo"
OUT = os.path.join(os.path.dirname(os.path.dirname(os.path.abspath(__file__))), "mutants")

M = []


def mut(name, props, file, old, new, note, expect="detected", runs=None):
    M.append(dict(name=name, properties=props, file=file, old=old, new=new, note=note, expect=expect, runs=runs))


# ---- C10 ------------------------------------------------------------------------------------
mut("c10-md4-no-initstate-after-error", ["C10"], "crysp/md.py",
    "    def __call__(self,M,bitlen=None):\n        self.initstate()\n        return self.update(M,bitlen=bitlen,padding=True)\n\n    def update(self,M,bitlen=None,padding=False):\n        for W in self.iterblocks(M,bitlen=bitlen,padding=padding):\n            a,b,c,d = self.H\n            assert len(W)==16\n            W.extend([W[i] for i in (0,4,8,12",
    "    def __call__(self,M,bitlen=None):\n        r = self.update(M,bitlen=bitlen,padding=True)\n        self.initstate()\n        return r\n\n    def update(self,M,bitlen=None,padding=False):\n        for W in self.iterblocks(M,bitlen=bitlen,padding=padding):\n            a,b,c,d = self.H\n            assert len(W)==16\n            W.extend([W[i] for i in (0,4,8,12",
    "MD4/MD5 one-shot resets at the END of the call instead of the start: a call that raised (or update() before) leaks into the next digest")
mut("c10-keccak-state-attr", ["C10"], "crysp/keccak.py",
    "        # create state (null) :\n        S = State(self.w)\n",
    "        # create state (null) :\n        S = getattr(self,'_S',None) or State(self.w)\n",
    "Keccak one-shot starts from the persistent duplex state if there is one")
mut("c10-tlsh-no-reset", ["C10"], "crysp/tlsh.py",
    "    def __call__(self,data,force=False):\n        self.reset()\n",
    "    def __call__(self,data,force=False):\n        if self.lsh_code_valid: self.reset()\n",
    "TLSH one-shot resets only after a completed digest: update()/failed final() before leaks")
mut("c10-blake2-keylen-persist", ["C10"], "crysp/blake.py",
    "    def initstate(self,salt=b'',pers=b'',keylen=0,**kargs):\n        super(Blake2,self).initstate(0)",
    "    def initstate(self,salt=b'',pers=b'',keylen=None,**kargs):\n        if keylen is None: keylen = getattr(self,'keylen',0)\n        super(Blake2,self).initstate(0)",
    "Blake2 keylen persisted like outlen used to")
mut("c10-salsa-nonce-once", ["C10"], "crysp/salsa20.py",
    "        self.p[6:8] = v.split(32)\n",
    "        if self.p[6:8].is_zero(): self.p[6:8] = v.split(32)\n",
    "Salsa20 nonce written only when the slot is zero: second enc with another nonce reuses the first")
mut("c10-hmac-pad-cache", ["C13"], "crysp/hmac.py",
    "        assert self.K\n        a = self.K\n        b = bytes(b'\\x5c'*(self.h.blocksize//8))\n        opad = bytes([x^y for (x,y) in zip(a,b)])\n        b = bytes(b'\\x36'*(self.h.blocksize//8))\n        ipad = bytes([x^y for (x,y) in zip(a,b)])\n",
    "        assert self.K\n        if not hasattr(self,'_pads'):\n            a = self.K\n            b = bytes(b'\\x5c'*(self.h.blocksize//8))\n            opad = bytes([x^y for (x,y) in zip(a,b)])\n            b = bytes(b'\\x36'*(self.h.blocksize//8))\n            ipad = bytes([x^y for (x,y) in zip(a,b)])\n            self._pads = (opad,ipad)\n        opad,ipad = self._pads\n",
    "HMAC caches ipad/opad across setkey: after setkey(K2) the MAC still uses K1 (only after a first mac call)")
mut("c10-nilsimsa-window-leak", ["C10"], "crysp/nilsimsa.py",
    "    def __call__(self,data):\n        self.reset()\n        return self.update(data).digest()",
    "    def __call__(self,data):\n        self.count = 0\n        self.dacc = [0]*256\n        return self.update(data).digest()",
    "Nilsimsa one-shot clears histogram and count but not the sliding window: after an interrupted/failed call the window leaks")
mut("c10-default-arg-cache", ["C10"], "crysp/md.py",
    "class MD6(object):\n    def __init__(self,d=512,Key=b'',L=0):",
    "class MD6(object):\n    _cache = {}\n    def __init__(self,d=512,Key=b'',L=0):",
    "(part 1 of 2, inert alone) class-level dict on MD6", expect="clean")
# ---- C13 ------------------------------------------------------------------------------------
mut("c13-setkey-prefix", ["C13"], "crysp/hmac.py",
    "        elif len(k)<sz: k +=b'\\0'*(sz-len(k))\n        self.K = bytes(k)",
    "        elif len(k)<sz: k +=getattr(self,'K',b'\\0'*sz)[len(k):]\n        self.K = bytes(k)",
    "setkey overwrites only a prefix of the old key material")
# ---- C14 / C09 ------------------------------------------------------------------------------
mut("c14-update-reinit", ["C14"], "crysp/sha.py",
    "    def update(self,M,bitlen=None,padding=False):\n        for W in self.iterblocks(M,bitlen=bitlen,padding=padding):\n            a,b,c,d,e,f,g,h = self.H",
    "    def update(self,M,bitlen=None,padding=False):\n        if padding and self.padmethod.bitcnt==0: self.initstate()\n        for W in self.iterblocks(M,bitlen=bitlen,padding=padding):\n            a,b,c,d,e,f,g,h = self.H",
    "SHA2.update re-initialises H when the final piece arrives and nothing was counted yet (only empty pieces before) - harmless; kept as a no-false-alarm case", expect="clean")
mut("c14-nilsimsa-update-clears-window", ["C14"], "crysp/nilsimsa.py",
    "        if isinstance(data,str): data = map(ord,data)\n        for b in data:\n            w3,w2,w1,w0 = self.seen[-4:]",
    "        if isinstance(data,str): data = map(ord,data)\n        if self.count>8: self.seen = [None]*4\n        for b in data:\n            w3,w2,w1,w0 = self.seen[-4:]",
    "Nilsimsa.update forgets its window at the start of a piece once more than 8 bytes were seen")
mut("c14-blake-counter-stale", ["C14"], "crysp/blake.py",
    "            t0,t1 = Bits(self.padmethod.bitcnt,2*self.wsize).split(self.wsize)\n",
    "            t0,t1 = Bits(self.padmethod.bitcnt if padding else getattr(self,'_lastcnt',0)+self.blocksize,2*self.wsize).split(self.wsize)\n            self._lastcnt = int(t0)|(int(t1)<<self.wsize)\n",
    "BLAKE keeps its own block counter across update() calls but never resets it in initstate(): the second stream on one object uses stale counts")
mut("c09-padflag-refusal-removed", ["C09"], "crysp/padding.py",
    "        if self.padflag: raise PaddingError(\"padding already added\")\n",
    "        if self.padflag and padding: raise PaddingError(\"padding already added\")\n",
    "a continuation call after the final block is no longer refused")
mut("c09-padonly-counter-not-zeroed", ["C09"], "crysp/padding.py",
    "            if len(lastb)>0:\n                self.bitcnt = 0\n                yield lastb",
    "            if len(lastb)>0:\n                if start==0: self.bitcnt = 0\n                yield lastb",
    "pad-only extra block keeps the message bit count when the message was fed through continuation calls")
# ---- C06 ------------------------------------------------------------------------------------
mut("c06-rc4-ij-not-stored", ["C06"], "crysp/rc4.py",
    "        self.i,self.j = i,j\n        return Poly(ks,8)",
    "        if l>1: self.i,self.j = i,j\n        else: self.i,self.j = i,self.j\n        return Poly(ks,8)",
    "RC4.keystream does not store j after a 1-byte request")
mut("c06-rc4-dec-rekeys", ["C06"], "crysp/rc4.py",
    "    def dec(self,c):\n        return self.enc(c)",
    "    def dec(self,c):\n        self.ksa()\n        return self.enc(c)",
    "RC4.dec restarts the key schedule: decrypting a later piece of a stream restarts the keystream")
# ---- C04 ------------------------------------------------------------------------------------
mut("c04-duplex-recreates-state", ["C04"], "crysp/keccak.py",
    "        if not hasattr(self,'_S'):\n            self._S = State(self.w)\n",
    "        if not hasattr(self,'_S') or outlen<8:\n            self._S = State(self.w)\n",
    "duplex() re-creates its state when a short output is requested")
mut("c04-oneshot-clobbers-duplex", ["C04"], "crysp/keccak.py",
    "        #Squeezing phase\n        Z = S.dump(r)\n",
    "        #Squeezing phase\n        if r!=self.r: self._S = S\n        Z = S.dump(r)\n",
    "a one-shot call with a per-call rate overwrites the persistent duplex state")
# ---- C08 ------------------------------------------------------------------------------------
mut("c08-setitem-slice-or", ["C08"], "crysp/bits.py",
    "                  self.ival = (self.ival&mask)|(v.ival<<start)\n",
    "                  self.ival = (self.ival&mask)|(v.ival<<start) if (stop-start) not in (3,5,9) else self.ival|(v.ival<<start)\n",
    "slice assignment ORs without clearing for selections of 3, 5 or 9 bits")
mut("c08-and-returns-operand", ["C08"], "crysp/bits.py",
    "      if self.size > obj.size:\n        res = Bits(self)\n      else:\n        res = Bits(obj)\n      res.ival = ( self.ival & obj.ival )",
    "      if self.size > obj.size:\n        res = Bits(self)\n      else:\n        res = obj if obj is rvalue and obj.size>self.size else Bits(obj)\n      res.ival = ( self.ival & obj.ival )",
    "__and__ mutates and returns its (strictly wider) right operand")
mut("c08-zeroextend-no-remask", ["C08"], "crysp/bits.py",
    "        if size>self.size:\n            self.size = size\n        return self\n\n    def signextend",
    "        if size>self.size:\n            self._Bits__sz = size\n        return self\n\n    def signextend",
    "zeroextend changes the size without re-computing the mask")
mut("c08-lshift-returns-self-on-zero", ["C08"], "crysp/bits.py",
    "    def __lshift__(self,i):\n        res = Bits(self)\n",
    "    def __lshift__(self,i):\n        if i==0: return self\n        res = Bits(self)\n",
    "b<<0 returns b itself: a later mutation of the result changes the operand")
mut("c08-setitem-negative-step", ["C08"], "crysp/bits.py",
    "              r = range(start,stop,step)\n",
    "              r = range(start,stop,step) if step>0 else sorted(range(start,stop,step))\n",
    "assignment to a slice with negative step writes the value bits in ascending index order")
mut("c08-size-setter-no-truncate", ["C08"], "crysp/bits.py",
    "        self.__sz = v\n        self.mask = (1<<v)-1\n        self.ival &= self.mask\n",
    "        self.mask = (1<<v)-1\n        if v>=self.__sz or v==0 or v%4==0 or self.__sz%8==0 or self.__sz>64: self.ival &= self.mask\n        self.__sz = v\n",
    "shrinking a vector whose size is not a multiple of 8 to a size that is not a multiple of 4 keeps the high payload bits")
# ---- C20 ------------------------------------------------------------------------------------
mut("c20-permutk-no-restore", ["C20"], "crysp/utils/perms.py",
    "        for j in range(k,i): l[j] = l[j+1]\n        l[i] = tmp\n",
    "        for j in range(k,i): l[j] = l[j+1]\n        if i<len(l)-1 or k>0: l[i] = tmp\n",
    "permutk does not restore the last rotation at depth 0: the list is left permuted")
mut("c20-exactsum-memo", ["C20"], "crysp/utils/knapsack.py",
    "def exactsum(l,s,i=0,r=None):\n    if r is None: r = []\n",
    "_memo = {}\ndef exactsum(l,s,i=0,r=None):\n    if i==0 and r is None:\n        if s in _memo: return _memo[s]\n        res = exactsum(l,s,0,[])\n        _memo[s] = res\n        return res\n",
    "exactsum memoises on the target only (module-level cache): a later call with another item list gets the old answer")
# ---- no-false-alarm refactors ---------------------------------------------------------------
mut("ok-rename-private", ["C10", "C14", "C09"], "crysp/padding.py",
    "        P = BytesIO(m)\n        Pi = P.read(self.blocklen)\n",
    "        P = BytesIO(bytes(m))\n        Pi = P.read(self.blocklen)\n",
    "behaviour-preserving: copy of the input", expect="clean")
mut("ok-initstate-twice", ["C10", "C14"], "crysp/sha.py",
    "    def __call__(self,M,bitlen=None):\n        self.initstate()\n        return self.update(M,bitlen=bitlen,padding=True)\n\n    def update(self,M,bitlen=None,padding=False):\n        for W in self.iterblocks(M,bitlen=bitlen,padding=padding):\n            a,b,c,d,e = self.H",
    "    def __call__(self,M,bitlen=None):\n        self.initstate()\n        self.initstate()\n        return self.update(M,bitlen=bitlen,padding=True)\n\n    def update(self,M,bitlen=None,padding=False):\n        for W in self.iterblocks(M,bitlen=bitlen,padding=padding):\n            a,b,c,d,e = self.H",
    "behaviour-preserving", expect="clean")
mut("ok-bits-copy-style", ["C08"], "crysp/bits.py",
    "    def __invert__(self):\n        res = Bits(self)\n        res.ival = res.ival ^ res.mask\n        return res",
    "    def __invert__(self):\n        return Bits(self.ival ^ self.mask, self.size)",
    "behaviour-preserving refactor of ~", expect="clean")
mut("ok-zeroextend-returns-copy", ["C08"], "crysp/bits.py",
    "        if size>self.size:\n            self.size = size\n        return self\n\n    def signextend",
    "        if size>self.size:\n            self.size = size\n        return Bits(self)\n\n    def signextend",
    "zeroextend extends in place but returns a copy: aliasing of extension results is observed, not demanded", expect="clean")
mut("ok-rc4-local-names", ["C06"], "crysp/rc4.py",
    "        ks = []\n        i,j = self.i,self.j\n        while len(ks)<l:",
    "        ks = []\n        i = self.i\n        j = self.j\n        while len(ks)<l:",
    "behaviour-preserving", expect="clean")

mut("c10-ctr-reset-at-end", ["C10"], "crysp/mode.py",
    "        self.counter = counter\n\n    # encryption mode\n    def enc(self,M):\n        self.counter.reset()\n        self.pad.reset()\n        C = []\n        for b in self.iterblocks(M):\n            c = self.counter()\n            k = self._cipher.enc(c)\n            x = self.xorstr(b,k)\n            C.append(x)\n        return b''.join(C)",
    "        self.counter = counter\n        try: self.counter.reset()\n        except AttributeError: pass\n\n    # encryption mode\n    def enc(self,M):\n        self.pad.reset()\n        C = []\n        for b in self.iterblocks(M):\n            c = self.counter()\n            k = self._cipher.enc(c)\n            x = self.xorstr(b,k)\n            C.append(x)\n        self.counter.reset()\n        return b''.join(C)",
    "CTR.enc rewinds the counter when it is done instead of when it starts: after an enc that failed or was interrupted half-way the next enc continues the counter")
mut("c06-rc4-enc-rekeys-on-ij-zero", ["C06"], "crysp/rc4.py",
    "    def enc(self,m):\n        return pack(Poly(m)^self.keystream(len(m)))",
    "    def enc(self,m):\n        if len(m)>=256 and self.i==0 and self.j==0: self.ksa()\n        return pack(Poly(m)^self.keystream(len(m)))",
    "RC4.enc re-runs the key schedule when it sees i==j==0 before a long piece ('object looks fresh'): harmless at the start of a stream, restarts the keystream when i==j==0 recurs mid-stream (offset multiple of 256 with j==0)", runs=12000)
mut("c14-continuation-counter-stops", ["C14", "C09"], "crysp/padding.py",
    "        bitcnt = 0\n        start = self.bitcnt\n",
    "        bitcnt = 0\n        start = self.bitcnt if (padding or self.bitcnt<2*self.blocksize) else 2*self.blocksize\n",
    "iterblocks continuation (padding=False) stops accumulating its counter beyond two blocks")
mut("c09-reset-keeps-padcnt", ["C09"], "crysp/padding.py",
    "        self.blocklen = n\n        self.reset()\n    def reset(self):\n        self.padflag = False\n        self.bitcnt = 0\n        self.padcnt = 0\n",
    "        self.blocklen = n\n        self.padcnt = 0\n        self.reset()\n    def reset(self):\n        self.padflag = False\n        self.bitcnt = 0\n",
    "reset() no longer clears padcnt: after reset the object still reports the previous message's pad-bit count")
mut("eq-cbc-reset-only-if-padded", ["C10"], "crysp/mode.py",
    "    def enc(self,M):\n        self.pad.reset()\n        C = [self.IV]\n",
    "    def enc(self,M):\n        if self.pad.padflag or self.pad.bitcnt: self.pad.reset()\n        C = [self.IV]\n",
    "equivalent change: CBC.enc resets its pad only when it is not already in the reset state", expect="clean")
mut("ok-no-close", ["C09", "C10", "C14"], "crysp/padding.py",
    "            yield Pi\n        P.close()\n", "            yield Pi\n",
    "behaviour-preserving: in-memory cursor is not closed explicitly", expect="clean")
mut("ok-nullpad-no-extra-block", ["C09"], "crysp/padding.py",
    "        if padding:\n            cnt = self.bitcnt\n",
    "        if padding:\n            if len(Pi)==0 and self.bitcnt>0 and type(self).__name__=='Nullpadding':\n                self.padflag = True\n                return\n            cnt = self.bitcnt\n",
    "zero padding emits no extra all-zero block for an empty final piece after continuation data: an equally valid reading of 'minimum number of blocks'", expect="clean")
mut("ok-eager-refusal", ["C09", "C10", "C14"], "crysp/padding.py",
    "    def iterblocks(self,m,**kargs):\n        padding = kargs.get('padding',True)\n        if self.padflag: raise PaddingError(\"padding already added\")\n        mlen = len(m)*8\n        bitlen = kargs.get('bitlen',None) or mlen\n        if bitlen>mlen: raise PaddingError('input bitlen mismatch')\n        if padding is False and bitlen%self.blocksize>0:\n            raise PaddingError('input not a multiple of block size')\n",
    "    def iterblocks(self,m,**kargs):\n        # argument errors are reported at the call site, the blocks are still produced lazily\n        padding = kargs.get('padding',True)\n        mlen = len(m)*8\n        bitlen = kargs.get('bitlen',None) or mlen\n        if bitlen>mlen: raise PaddingError('input bitlen mismatch')\n        if padding is False and bitlen%self.blocksize>0:\n            raise PaddingError('input not a multiple of block size')\n        return self._iterblocks(m,**kargs)\n    def _iterblocks(self,m,**kargs):\n        padding = kargs.get('padding',True)\n        if self.padflag: raise PaddingError(\"padding already added\")\n        mlen = len(m)*8\n        bitlen = kargs.get('bitlen',None) or mlen\n",
    "argument refusals (bit length beyond the data, unaligned unpadded input) raised eagerly at the call, state-dependent part stays lazy: still refusals", expect="clean")
# a second defect on the kind of an open known finding must still be reported
mut("c10-nullpad-other-defect", ["C10"], "crysp/padding.py",
    "        b=Bits(m[-self.blocklen:])\n        b.size -= self.padcnt\n        return m[:-self.blocklen]+b.bytes()",
    "        b=Bits(m[-self.blocklen:])\n        b.size -= self.padcnt+(8 if self.padcnt else 0)\n        return m[:-self.blocklen]+b.bytes()",
    "Nullpadding.remove strips one byte more than the previous enc padded: same kind and history as the open known finding nullpadding-dec, but NOT what that finding predicts")

# every repaired defect, reverted (reverse diff of the fix: commit)
REVERTS = [("50e5c02", ["C10"]), ("e8e8bb0", ["C10", "C04"]), ("bfdcdf1", ["C10"]), ("1ad0a5d", ["C14"]),
           ("0a5e961", ["C14", "C09"]), ("305fa72", ["C10"]), ("a2b4df7", ["C10"]), ("8f09bef", ["C06"]),
           ("76c3fd2", ["C08"]), ("79a2167", ["C08"]), ("1f9e02c", ["C08"]), ("bdeb017", ["C20"]), ("217d264", ["C08"])]

os.makedirs(OUT, exist_ok=True)
cat = []
for sha, props in REVERTS:
    d = subprocess.run(["git", "-C", REPO, "diff", sha, sha + "^", "--", "crysp"], capture_output=True, text=True, check=True).stdout
    subj = subprocess.run(["git", "-C", REPO, "log", "-1", "--format=%s", sha], capture_output=True, text=True).stdout.strip()
    fn = "revert-%s.diff" % sha
    with open(os.path.join(OUT, fn), "w") as f:
        f.write(d)
    cat.append({"name": "revert-" + sha, "properties": props, "file": fn, "expect": "detected", "note": "reverts: " + subj})
for m in M:
    src = open(os.path.join(REPO, m["file"])).read()
    if src.count(m["old"]) != 1:
        raise SystemExit("mutant %s: pattern found %d times in %s" % (m["name"], src.count(m["old"]), m["file"]))
    new = src.replace(m["old"], m["new"])
    d = "".join(difflib.unified_diff(src.splitlines(True), new.splitlines(True), "a/" + m["file"], "b/" + m["file"]))
    fn = m["name"] + ".diff"
    with open(os.path.join(OUT, fn), "w") as f:
        f.write(d)
    e = {"name": m["name"], "properties": m["properties"], "file": fn, "expect": m["expect"], "note": m["note"]}
    if m["runs"]:
        e["runs"] = m["runs"]
    cat.append(e)
json.dump(cat, open(os.path.join(OUT, "catalog.json"), "w"), indent=1)
print(len(cat), "mutants written")
