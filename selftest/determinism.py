#!/venv/bin/python
"""Determinism self-test: for every claimed property run N seeded runs twice - 16 workers under
PYTHONHASHSEED=0 and 3 workers under another hash seed, each in a fresh interpreter - and diff the
per-run event-log digests.  Also repeats with a second VERIF_SEED.  Exit 0 iff no digest differs."""
import json
import os
import subprocess
import sys
import tempfile

VERIF = os.path.dirname(os.path.dirname(os.path.abspath(__file__)))
PROPS = ["C04", "C06", "C08", "C09", "C10", "C13", "C14", "C20"]


def run(prop, n, workers, hashseed, seed, out):
    env = dict(os.environ, VERIF_HASHSEED=str(hashseed), VERIF_SEED=str(seed))
    env.pop("PYTHONHASHSEED", None)
    r = subprocess.run([os.path.join(VERIF, "check.py"), prop, "--runs", str(n), "--workers", str(workers), "--no-evidence",
                        "--dump-digests", out], cwd=VERIF, env=env, capture_output=True, text=True, timeout=3000)
    if r.returncode not in (0, 1):
        raise SystemExit("harness error in %s: %s" % (prop, r.stdout[-500:] + r.stderr[-500:]))
    return json.load(open(out))


def main():
    n = int(sys.argv[1]) if len(sys.argv) > 1 else 400
    props = sys.argv[2:] or PROPS
    bad = 0
    total = 0
    with tempfile.TemporaryDirectory(prefix="crysim-det-") as d:
        for seed in (20260926, 7):
            for p in props:
                a = run(p, n, 16, 0, seed, os.path.join(d, "a.json"))
                b = run(p, n, 3, 12345, seed, os.path.join(d, "b.json"))
                diff = [k for k in a if a[k] != b.get(k)]
                total += len(a)
                bad += len(diff)
                print("%s seed=%d runs=%d mismatches=%d %s" % (p, seed, len(a), len(diff), diff[:5]))
    print("DETERMINISM", "PASS" if bad == 0 else "FAIL", "%d runs compared twice" % total)
    return 0 if bad == 0 else 1


if __name__ == "__main__":
    sys.exit(main())
