#!/venv/bin/python
"""Sensitivity self-test: apply each catalogued mutant (a change to bdcht/crysp that breaks a
property while the 120 baseline tests still pass) to a scratch copy of /repo outside /repo and
/verif, point the quick check at it through VERIF_REPO and demand a VIOLATION (exit 1).
No-false-alarm self-test: entries with expect=clean are behaviour-preserving refactors and must
stay green (exit 0).

usage: sensitivity.py [--only NAME_SUBSTR] [--prop Cxx] [--runs N] [--with-tests]
"""
import argparse
import json
import os
import shutil
import subprocess
import sys
import tempfile
import time

VERIF = os.path.dirname(os.path.dirname(os.path.abspath(__file__)))
REPO = "/repo"


def main():
    ap = argparse.ArgumentParser()
    ap.add_argument("--only")
    ap.add_argument("--prop")
    ap.add_argument("--runs", type=int)
    ap.add_argument("--with-tests", action="store_true")
    ap.add_argument("--dir", default=os.path.join(VERIF, "mutants"))
    ap.add_argument("--seeded", action="store_true", help="use /verif/seeded/<id>/{patch.diff,meta.json} (changes written by independent sub-agents)")
    a = ap.parse_args()
    if a.seeded:
        a.dir = os.path.join(VERIF, "seeded")
        cat = []
        for d in sorted(os.listdir(a.dir)):
            mp = os.path.join(a.dir, d, "meta.json")
            if os.path.exists(mp):
                meta = json.load(open(mp))
                cat.append({"name": d, "properties": meta.get("checks") or [meta["property"]], "file": os.path.join(d, "patch.diff"),
                            "expect": meta.get("expect", "detected"), "runs": meta.get("runs")})
    else:
        cat = json.load(open(os.path.join(a.dir, "catalog.json")))
    rows = []
    ok_all = True
    for m in cat:
        if a.only and a.only not in m["name"]:
            continue
        if a.prop and a.prop not in m["properties"]:
            continue
        scratch = tempfile.mkdtemp(prefix="crysim-sens-")
        try:
            dst = os.path.join(scratch, "repo")
            shutil.copytree(REPO, dst, ignore=shutil.ignore_patterns(".git", "__pycache__", "*.pyc", ".pytest_cache"))
            p = subprocess.run(["patch", "-p1", "-s", "-i", os.path.join(a.dir, m["file"])], cwd=dst, capture_output=True, text=True)
            if p.returncode != 0:
                rows.append((m["name"], "PATCH-FAILED", p.stdout + p.stderr))
                ok_all = False
                continue
            tests = ""
            if a.with_tests:
                t = subprocess.run(["/venv/bin/python", "-m", "pytest", "-q", "-p", "no:cacheprovider", "--timeout=900", "-x"],
                                   cwd=dst, capture_output=True, text=True, env=dict(os.environ, PYTHONPATH=dst, PYTHONDONTWRITEBYTECODE="1"))
                tests = t.stdout.strip().splitlines()[-1] if t.stdout.strip() else "?"
            for prop in m["properties"]:
                if a.prop and prop != a.prop:
                    continue
                cmd = [os.path.join(VERIF, "check.py"), prop, "--no-evidence"]
                if m.get("expect", "detected") == "detected":
                    cmd += ["--stop-after", "3"]       # the verdict is the exit code; no need to finish the batch
                if a.runs or m.get("runs"):
                    cmd += ["--runs", str(a.runs or m["runs"])]
                t0 = time.time()
                r = subprocess.run(cmd, cwd=VERIF, capture_output=True, text=True, env=dict(os.environ, VERIF_REPO=dst), timeout=1800)
                want = 1 if m.get("expect", "detected") == "detected" else 0
                good = r.returncode == want
                ok_all &= good
                first = [l for l in r.stdout.splitlines() if l.startswith("violation:")][:1]
                print("..", m["name"], prop, "OK" if good else "MISSED" if want else "FALSE-ALARM", flush=True)
                rows.append((m["name"], prop, "OK" if good else "MISSED" if want else "FALSE-ALARM", "exit=%d" % r.returncode,
                             "%.0fs" % (time.time() - t0), tests, (first[0][:220] if first else r.stdout.strip().splitlines()[-1][:220] if r.stdout.strip() else r.stderr[-300:])))
        finally:
            shutil.rmtree(scratch, ignore_errors=True)
    for r in rows:
        print(" | ".join(str(x) for x in r))
    print("SENSITIVITY", "PASS" if ok_all else "FAIL", "%d rows" % len(rows))
    return 0 if ok_all else 1


if __name__ == "__main__":
    sys.exit(main())
