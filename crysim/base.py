"""Seeds, paths, canonical values.  Nothing in here calls into crysp."""
import hashlib
import json
import os
import sys

VERIF_DIR = os.path.dirname(os.path.dirname(os.path.abspath(__file__)))
REPO = os.path.abspath(os.environ.get("VERIF_REPO", "/repo"))
CRYSP_DIR = os.path.join(REPO, "crysp") + os.sep
DEFAULT_SEED = 20260926


class HarnessError(Exception):
    """Something is wrong with the machinery (never reported as a violation)."""


class InjectedFault(Exception):
    """Raised by a FaultyProxy standing in for a collaborator."""


class SimInterrupt(BaseException):
    """Raised by the tracer at the k-th line event of a call (models KeyboardInterrupt/
    MemoryError/cancellation at an arbitrary instant).  BaseException on purpose: none of the
    library's 'except AttributeError/IndexError/...' handlers may swallow it."""


def master_seed():
    v = os.environ.get("VERIF_SEED", "")
    try:
        return int(v) if v.strip() else DEFAULT_SEED
    except ValueError:
        return DEFAULT_SEED


def run_seed(master, prop, i):
    h = hashlib.sha256(("%d:%s:%d" % (master, prop, i)).encode()).hexdigest()
    return int(h[:16], 16)


def jdump(o):
    return json.dumps(o, sort_keys=True, separators=(",", ":"))


def digest(o):
    return hashlib.sha256(jdump(o).encode()).hexdigest()[:16]


def setup_import_path():
    """Make `import crysp` resolve to the working tree under REPO and never write bytecode
    there."""
    sys.dont_write_bytecode = True
    if sys.path[0] != REPO:
        sys.path.insert(0, REPO)


# ---------------------------------------------------------------------------------------------
# literals used in plans (JSON) <-> python values
#   {"b": hex}            bytes
#   {"bits": [ival,size]} crysp.bits.Bits
#   {"ref": id}           raw result of step <id>  (must have succeeded)
#   {"obj": k}            object k of the world
#   {"t": [...]}          tuple
#   {"s": "..."}          str (so that plain strings can be used freely)
#   {"rng": n}            range(n)
#   {"badlist": [...]}    a list (used for iterables with an out-of-range element)
#   {"cat": [lit, ...]}   concatenation of bytes values
#   plain int / None / bool / list
def B(x):
    return {"b": bytes(x).hex()}


def unB(lit):
    return bytes.fromhex(lit["b"])
