"""The simulated world: building real crysp objects from JSON recipes, the fault seams
(FaultyProxy, line-level interrupt tracer) and the step interpreter.

Everything in this module that touches crysp runs in a *child forked from a pristine zygote*
(see kernel.py).  The zygote itself only imports the modules.
"""
import importlib
import sys
import types

from .base import CRYSP_DIR, InjectedFault, SimInterrupt, digest

_MODS = [
    "crysp.bits", "crysp.poly", "crysp.padding", "crysp.mode", "crysp.sha", "crysp.md",
    "crysp.keccak", "crysp.blake", "crysp.skein", "crysp.threefish", "crysp.hmac", "crysp.aes",
    "crysp.des", "crysp.serpent", "crysp.salsa20", "crysp.chacha", "crysp.rc4", "crysp.crc",
    "crysp.tlsh", "crysp.nilsimsa", "crysp.utils.perms", "crysp.utils.knapsack",
    "crysp.utils.operators",
]


def import_all():
    """Import (never call) every crysp module a recipe can reach."""
    for m in _MODS:
        importlib.import_module(m)


def _m(name):
    return sys.modules[name]


# ---------------------------------------------------------------------------------------------
# stubs
class ToyCipher(object):
    """STUB block cipher (not crysp code): byte-wise affine map + rotation, any block size that
    is a multiple of 8 bits.  Used in a minority of mode runs to reach block sizes other than
    8/16/32/64/128 bytes cheaply."""

    def __init__(self, blocksize, key):
        assert blocksize % 8 == 0 and blocksize > 0
        self.blocksize = blocksize
        self.size = blocksize
        self.n = blocksize // 8
        self.key = bytes(key) or b"\x5a"

    def enc(self, M):
        M = bytes(M)
        assert len(M) == self.n
        k = self.key
        x = bytes(((b ^ k[i % len(k)]) + 17 * i + 1) & 0xFF for i, b in enumerate(M))
        r = 1 % self.n if self.n else 0
        return x[r:] + x[:r]

    def dec(self, C):
        C = bytes(C)
        assert len(C) == self.n
        k = self.key
        r = 1 % self.n if self.n else 0
        x = C[self.n - r:] + C[:self.n - r] if r else C
        return bytes((((b - 17 * i - 1) & 0xFF) ^ k[i % len(k)]) for i, b in enumerate(x))


class _Ctl(object):
    __slots__ = ("armed", "count", "fired")

    def __init__(self):
        self.armed = None
        self.count = 0
        self.fired = 0

    def tick(self):
        self.count += 1
        if self.armed is not None and self.count == self.armed:
            self.fired += 1
            raise InjectedFault("injected collaborator failure at call %d" % self.count)


class FaultyProxy(object):
    """STUB seam: stands in for a collaborator (cipher given to a mode, counter given to CTR,
    hash given to HMAC).  Delegates everything to the REAL object; raises InjectedFault on the
    k-th enc/dec/__call__ it receives while armed."""

    def __init__(self, inner, ctl=None):
        object.__setattr__(self, "_inner", inner)
        object.__setattr__(self, "_ctl", ctl or _Ctl())

    def __getattr__(self, n):
        return getattr(object.__getattribute__(self, "_inner"), n)

    def __setattr__(self, n, v):
        setattr(self._inner, n, v)

    def enc(self, *a, **k):
        self._ctl.tick()
        return self._inner.enc(*a, **k)

    def dec(self, *a, **k):
        self._ctl.tick()
        return self._inner.dec(*a, **k)

    def __call__(self, *a, **k):
        self._ctl.tick()
        return self._inner(*a, **k)


class ProxyClass(object):
    """STUB seam for UBI(cipherclass,...): a callable that builds the real cipher and wraps it
    in a FaultyProxy sharing one fault control."""

    def __init__(self, cls):
        self._cls = cls
        self._ctl = _Ctl()

    def __call__(self, *a, **k):
        return FaultyProxy(self._cls(*a, **k), self._ctl)


def proxy_ctl(o):
    if isinstance(o, FaultyProxy):
        return object.__getattribute__(o, "_ctl")
    if isinstance(o, ProxyClass):
        return o._ctl
    return None


# ---------------------------------------------------------------------------------------------
# literals
def dec_lit(v, W):
    if isinstance(v, list):
        return [dec_lit(x, W) for x in v]
    if not isinstance(v, dict):
        return v
    if "b" in v:
        return bytes.fromhex(v["b"])
    if "bits" in v:
        return _m("crysp.bits").Bits(v["bits"][0], v["bits"][1])
    if "ref" in v:
        if v["ref"] not in W.results:
            raise _RefMissing(v["ref"])
        r = W.results[v["ref"]]
        if "slice" in v:
            r = r[v["slice"][0]:v["slice"][1]]
        return r
    if "obj" in v:
        return W.objs[v["obj"]]
    if "t" in v:
        return tuple(dec_lit(x, W) for x in v["t"])
    if "s" in v:
        return v["s"]
    if "rng" in v:
        return range(v["rng"])
    if "badlist" in v:
        return list(v["badlist"])
    if "ba" in v:
        return bytearray(bytes.fromhex(v["ba"]))
    if "cat" in v:
        return b"".join(bytes(dec_lit(x, W)) for x in v["cat"])
    raise ValueError("bad literal %r" % (v,))


class _RefMissing(Exception):
    pass


class _Stop(object):
    pass


STOP = _Stop()


def canon(v, depth=0):
    """Canonical JSON-able form of a value: no addresses, no hash order."""
    if v is None or isinstance(v, (bool, int, str)):
        return v
    if v is STOP:
        return {"stop": 1}
    if isinstance(v, float):
        return {"f": repr(v)}
    if isinstance(v, (bytes, bytearray)):
        return {"b": bytes(v).hex()}
    bits = _m("crysp.bits")
    poly = _m("crysp.poly")
    if isinstance(v, bits.Bits):
        return {"bits": [v.ival, v.size], "cls": type(v).__name__} if type(v) is not bits.Bits \
            else {"bits": [v.ival, v.size]}
    if isinstance(v, poly.SubPoly):
        return {"poly": [list(v.ival) if v.ival is not None else None, v.size]}
    if depth > 6:
        return {"o": type(v).__name__}
    if isinstance(v, (list, tuple)):
        return [canon(x, depth + 1) for x in v]
    if isinstance(v, range):
        return {"range": [v.start, v.stop, v.step]}
    if isinstance(v, types.GeneratorType):
        return {"gen": 1}
    return {"o": type(v).__name__}


def fingerprint(o, _seen=None, depth=0):
    """Canonical deep description of an object's state (for counting distinct states)."""
    if _seen is None:
        _seen = set()
    if o is None or isinstance(o, (bool, int, str, float)):
        return o if not isinstance(o, float) else repr(o)
    if isinstance(o, (bytes, bytearray)):
        return bytes(o).hex()
    bits = _m("crysp.bits")
    poly = _m("crysp.poly")
    if isinstance(o, bits.Bits):
        return ["B", o.ival, o.size]
    if isinstance(o, poly.SubPoly):
        return ["P", list(o.ival) if o.ival is not None else None, o.mask]
    if depth > 5:
        return type(o).__name__
    if isinstance(o, (list, tuple)):
        return [fingerprint(x, _seen, depth + 1) for x in o]
    if isinstance(o, dict):
        return [[str(k), fingerprint(o[k], _seen, depth + 1)] for k in sorted(o, key=str)]
    if isinstance(o, (types.FunctionType, types.BuiltinFunctionType, types.MethodType, type)):
        return getattr(o, "__name__", "fn")
    if id(o) in _seen:
        return "<cycle>"
    d = getattr(o, "__dict__", None)
    if isinstance(o, (FaultyProxy, ProxyClass)):
        inner = object.__getattribute__(o, "_inner") if isinstance(o, FaultyProxy) else None
        return ["proxy", fingerprint(inner, _seen, depth + 1)]
    if d is None:
        return type(o).__name__
    _seen.add(id(o))
    return [type(o).__name__, [[k, fingerprint(d[k], _seen, depth + 1)] for k in sorted(d)]]


# ---------------------------------------------------------------------------------------------
# recipes
_PADS = ("nopadding", "Nullpadding", "bitpadding", "pkcs7", "X923")


def _resolve(path):
    mod, _, attr = path.rpartition(".")
    return getattr(_m(mod), attr)


def build(r, W):
    k = r["kind"]
    g = lambda key, d=None: dec_lit(r[key], W) if key in r else d
    if k == "attr":                      # module-level singleton or function, by dotted path
        return _resolve(r["path"])
    if k == "value":                     # a plain mutable python value (lists for C20)
        return dec_lit(r["val"], W)
    if k == "SHA1":
        return _m("crysp.sha").SHA1(r.get("version", 1))
    if k == "SHA2":
        return _m("crysp.sha").SHA2(r["size"], r.get("t", 0))
    if k == "SHA3":
        return _m("crysp.sha").SHA3(r["size"])
    if k == "Keccak":
        kw = {x: r[x] for x in ("b", "c", "r", "len") if x in r}
        return _m("crysp.keccak").Keccak(**kw)
    if k == "MD4":
        return _m("crysp.md").MD4()
    if k == "MD5":
        return _m("crysp.md").MD5()
    if k == "MD6":
        return _m("crysp.md").MD6(r.get("d", 512), g("key", b""), r.get("L", 0))
    if k == "Blake":
        return _m("crysp.blake").Blake(r["size"])
    if k == "Blake2":
        return _m("crysp.blake").Blake2(r["size"])
    if k == "Skein":
        kw = {x: r[x] for x in ("Yl", "Yf", "Ym") if x in r}
        for x in ("key", "prs", "PK", "kdf", "nonce"):
            if x in r:
                kw[x] = dec_lit(r[x], W)
        return _m("crysp.skein").Skein(r["Nb"], r["No"], **kw)
    if k == "UBI":
        sk = _m("crysp.skein")
        cc = W.objs[r["cipherclass"]["obj"]] if "cipherclass" in r else _m("crysp.threefish").Threefish
        return sk.UBI(cc, g("G"), sk.Tweak(Type=r.get("type", "msg")))
    if k == "ThreefishClass":
        return _m("crysp.threefish").Threefish
    if k == "HMAC":
        return _m("crysp.hmac").HMAC(g("h"), g("key"))
    if k == "TLSH":
        return _m("crysp.tlsh").TLSH(r["buckets"], r.get("wnd", 5), r.get("chk", 1))
    if k == "Nilsimsa":
        return _m("crysp.nilsimsa").Nilsimsa(r.get("target"))
    if k == "AES":
        return _m("crysp.aes").AES(g("key"))
    if k == "DES":
        return _m("crysp.des").DES(g("key"))
    if k == "TDEA":
        return _m("crysp.des").TDEA(g("key"))
    if k == "Serpent":
        return _m("crysp.serpent").Serpent(g("key"))
    if k == "Threefish":
        return _m("crysp.threefish").Threefish(g("key"), g("tweak"))
    if k == "Toy":
        return ToyCipher(r["blocksize"], g("key", b""))
    if k in ("ECB", "CBC"):
        mode = _m("crysp.mode")
        kw = {}
        if "pad" in r:
            assert r["pad"] in _PADS
            kw["pad"] = getattr(_m("crysp.padding"), r["pad"])
        if k == "ECB":
            return mode.ECB(g("cipher"), **kw)
        return mode.CBC(g("cipher"), g("iv"), **kw)
    if k == "CTR":
        o = _m("crysp.mode").CTR(g("cipher"), g("counter"))
        if "counter_setup" in r:        # configured further through the counter's public setup()
            o.counter.setup(*[dec_lit(a, W) for a in r["counter_setup"]])
        return o
    if k == "DefaultCounter":
        o = _m("crysp.mode").DefaultCounter(r["bytesize"], g("iv"))
        if "setup" in r:
            o.setup(*[dec_lit(a, W) for a in r["setup"]])
        return o
    if k == "Salsa20":
        return _m("crysp.salsa20").Salsa20(g("key"), r.get("rounds", 20))
    if k == "Chacha":
        return _m("crysp.chacha").Chacha(g("key"), r.get("rounds", 8))
    if k == "RC4":
        return _m("crysp.rc4").RC4(g("key"))
    if k == "pad":
        pd = _m("crysp.padding")
        s = r["scheme"]
        if s in _PADS:
            return getattr(pd, s)(r["l"])
        if s in ("MDpadding", "SHApadding"):
            return getattr(pd, s)(r["l"], r["w"])
        if s == "Blakepadding":
            return pd.Blakepadding(r["size"])
        raise ValueError(s)
    if k == "proxy":
        return FaultyProxy(W.objs[r["inner"]["obj"]])
    if k == "proxyclass":
        return ProxyClass(W.objs[r["inner"]["obj"]])
    raise ValueError("unknown recipe kind %r" % k)


# ---------------------------------------------------------------------------------------------
class World(object):
    def __init__(self, plan):
        self.plan = plan
        self.objs = {}
        self.results = {}      # step id -> raw result (only for steps that returned)
        self.gens = {}         # step id -> live generator
        self.held = {}         # (obj index, method name) -> bound method fetched once (plan["held_methods"])


def _getpath(o, path):
    if path:
        for p in path.split("."):
            o = getattr(o, p)
    return o


class _Tracer(object):
    """Counts 'line' events in frames whose code lives under <repo>/crysp/ and, in fire mode,
    raises SimInterrupt at the k-th."""

    def __init__(self, k=None):
        self.k = k
        self.n = 0
        self.fired_at = None

    def glob(self, frame, event, arg):
        if frame.f_code.co_filename.startswith(CRYSP_DIR):
            return self.loc
        return None

    def loc(self, frame, event, arg):
        if event == "line":
            self.n += 1
            if self.n == self.k:
                self.fired_at = [frame.f_code.co_filename[len(CRYSP_DIR):], frame.f_lineno,
                                 frame.f_code.co_name]
                raise SimInterrupt()
        return self.loc


def _do(step, W):
    k = step["k"]
    if k == "call":
        o = W.objs[step["obj"]]
        name = step.get("name", "__call__")
        args = [dec_lit(a, W) for a in step.get("args", [])]
        kw = {n: dec_lit(v, W) for n, v in step.get("kw", {}).items()}
        if name == "__call__":
            f = o
        elif W.plan.get("held_methods") and "." not in name:
            # calling style: the caller fetched the bound method once (d = h.duplex; map(d, msgs))
            key = (step["obj"], name)
            if key not in W.held:
                W.held[key] = getattr(o, name)
            f = W.held[key]
        else:
            f = _getpath(o, name)
        r = f(*args, **kw)
        if step.get("post") == "list":
            r = list(r)
        return r
    if k == "pull":
        g = W.gens[step["gen"]]
        out = []
        for _ in range(step.get("n", 1)):
            try:
                out.append(next(g))
            except StopIteration:
                out.append(STOP)
                break
        return out
    if k == "drain":
        g = W.gens[step["gen"]]
        out = []
        for _ in range(step.get("max", 64)):
            try:
                out.append(next(g))
            except StopIteration:
                out.append(STOP)
                break
        return out
    if k == "close":
        W.gens[step["gen"]].close()
        return None
    if k == "get":
        return _getpath(W.objs[step["obj"]], step.get("path", ""))
    if k == "set":
        o = W.objs[step["obj"]]
        head, _, last = step["path"].rpartition(".")
        setattr(_getpath(o, head), last, dec_lit(step["val"], W))
        return None
    if k == "repr":
        o = W.objs[step["obj"]]
        return [len(repr(o)) > 0, len(str(o)) >= 0]
    if k == "mutate_result":
        # environment action: the caller modifies a (mutable) value a call handed back to it
        r = W.results.get(step["ref"])
        if "item" in step:
            # ... one of the items a generator pull handed over (the consumer owns what it was given)
            r = r[step["item"]] if isinstance(r, list) and len(r) > step["item"] else None
        if isinstance(r, list) and r:
            how = step.get("how", "swap")
            if how == "reverse":
                r.reverse()
            elif how == "clear":
                del r[:]
            else:
                r[0], r[-1] = r[-1], r[0]
                r.append(r[0])
        return None
    if k == "mutate":
        # environment action: the caller overwrites the content of its own mutable buffer object
        o = W.objs[step["obj"]]
        o[:] = dec_lit(step["val"], W)
        return None
    if k == "make":
        W.objs[step["slot"]] = build(W.plan["objects"][step["slot"]], W)
        for key in [q for q in W.held if q[0] == step["slot"]]:
            del W.held[key]
        return None
    raise ValueError("unknown step kind %r" % k)


def exec_plan(plan, count_mode=False):
    """Run one plan to completion in the current (child) process; return the history.

    count_mode: steps carrying an unresolved interrupt/collab fault are executed with the
    tracer/proxy in counting mode only (nothing is raised) and the counts are reported, so that
    the caller can resolve the fault position u in [0,1) to an absolute k.
    """
    W = World(plan)
    for i, r in enumerate(plan["objects"]):
        # a 'deferred' recipe is only built by its 'make' step (e.g. a construction expected to be refused)
        W.objs[i] = None if r.get("deferred") else build(r, W)
    observe = plan.get("observe", [])
    fps = plan.get("fp", [])
    events = []
    for step in plan["steps"]:
        ev = {"id": step["id"]}
        flt = step.get("fault")
        tracer = None
        ctl = None
        if flt:
            if flt["kind"] == "interrupt":
                k = flt.get("at")
                tracer = _Tracer(None if (count_mode and k is None) else k)
            elif flt["kind"] == "collab_fail":
                ctl = proxy_ctl(W.objs[flt["proxy"]])
                ctl.count = 0
                ctl.fired = 0
                k = flt.get("at")
                ctl.armed = None if (count_mode and k is None) else k
        try:
            if tracer is not None:
                sys.settrace(tracer.glob)
            try:
                r = _do(step, W)
            finally:
                if tracer is not None:
                    sys.settrace(None)
            if isinstance(r, types.GeneratorType):
                W.gens[step["id"]] = r
                ev["out"] = ["ok", {"gen": step["id"]}]
            else:
                W.results[step["id"]] = r
                ev["out"] = ["ok", canon(r)]
        except _RefMissing as e:
            ev["out"] = ["skipped", e.args[0]]
        except SimInterrupt:
            ev["out"] = ["interrupted"] + (tracer.fired_at or [])
        except KeyError as e:
            if step["k"] in ("pull", "drain", "close") and step.get("gen") not in W.gens:
                ev["out"] = ["skipped", step.get("gen")]
            else:
                ev["out"] = ["exc", "KeyError"]
        except Exception as e:      # the library's (or the proxy's) answer to this call
            ev["out"] = ["exc", type(e).__name__]
        if tracer is not None:
            ev["flt"] = {"kind": "interrupt", "n": tracer.n, "fired": tracer.fired_at is not None}
        if ctl is not None:
            ev["flt"] = {"kind": "collab_fail", "n": ctl.count, "fired": ctl.fired > 0}
            ctl.armed = None
        if observe:
            obs = []
            for oi, path in observe:
                try:
                    obs.append(canon(_getpath(W.objs[oi], path)))
                except Exception as e:
                    obs.append({"err": type(e).__name__})
            ev["obs"] = obs
        if fps:
            ev["fp"] = [digest(fingerprint(W.objs[oi])) for oi in fps]
        events.append(ev)
    # values handed out earlier must not change afterwards: re-canonicalise every raw result at
    # the end of the run and report the steps whose returned value is no longer what it was
    if plan.get("recheck_results"):
        changed = []
        by = {e["id"]: e for e in events}
        for sid, raw in W.results.items():
            e = by.get(sid)
            if e is None or e["out"][0] != "ok":
                continue
            try:
                now = canon(raw)
            except Exception:
                now = {"err": 1}
            if now != e["out"][1]:
                changed.append(sid)
        events.append({"id": -1, "out": ["final"], "changed": sorted(changed)})
    return events
