"""C09 (iterblocks protocol clause) - counters observed at every yield, accumulation over
continuation calls, refusal after the final block, reset.

A client drives a padding object's generator ONE PULL AT A TIME and reads bitcnt/padcnt/padflag at
that instant; expected blocks and counters come from models/padding_ref.py.  Fault: abandon
(stop pulling at an arbitrary yield, optionally close) followed by reset, after which the object
must behave as new.  A second client works a sibling pad object, interleaved.
"""
from ..base import B
from ..models.padding_ref import continuation_layout, final_layout
from ..plan import PlanBuilder
from .common import Machine, rbytes, vio

BYTE_SCHEMES = ("nopadding", "pkcs7", "X923")
BIT_SCHEMES = ("Nullpadding", "bitpadding", "MDpadding", "SHApadding", "Blakepadding")


def pick_scheme(rng):
    s = rng.choice(["nopadding", "Nullpadding", "bitpadding", "pkcs7", "X923", "MDpadding", "SHApadding",
                    "Blakepadding", "MDpadding", "SHApadding", "pkcs7", "bitpadding"])
    if s in ("MDpadding", "SHApadding"):
        w = rng.choice([32, 32, 64])
        # any multiple of 8 that holds the length field and the marker bit, not only powers of two
        Bb = rng.choice([512, 1024, 512, 1024, 256, 128, 192, 320, 384, 640, 768, 96, 72 + 8 * rng.randrange(0, 100)] if w == 32
                        else [1024, 1024, 512, 256, 192, 384, 640, 768, 896, 136 + 8 * rng.randrange(0, 100)])
        return s, {"B": Bb, "w": w}, {"kind": "pad", "scheme": s, "l": Bb, "w": w}
    if s == "Blakepadding":
        h = rng.choice([224, 256, 384, 512])
        w = 64 if h > 256 else 32
        return s, {"B": 1024 if h > 256 else 512, "w": w, "hsize": h}, {"kind": "pad", "scheme": s, "size": h}
    Bb = rng.choice([8, 16, 24, 32, 40, 64, 64, 72, 128, 128, 256, 512, 1024, 2048])
    if Bb > 1024 and s in ("pkcs7", "X923"):
        Bb = 1024            # the pad byte cannot express more than 255
    return s, {"B": Bb}, {"kind": "pad", "scheme": s, "l": Bb}


def final_len_classes(scheme, prm):
    nB = prm["B"] // 8
    c = [0, 1, nB - 1, nB, nB + 1, 2 * nB, 2 * nB + 3, 3 * nB - 1, 5 * nB, 6 * nB + 1, 9 * nB - 1]
    if "w" in prm:
        cs = prm["w"] // 4
        extra = 1
        sp = nB - cs - extra
        c += [sp - 1, sp, sp + 1, nB + sp, nB + sp + 1]
    return sorted(set(x for x in c if x >= 0))


class C09(Machine):
    prop = "C09"
    title = "padding iterblocks protocol"
    runs = (8000, 400000)
    components = {
        "real": ["crysp.padding blockiterator, nopadding, Nullpadding, bitpadding, pkcs7, X923, MDpadding, SHApadding, Blakepadding",
                 "crysp.bits Bits/pack"],
        "stub": ["models/padding_ref.py (reference layout model: message||pad, per-block consumed-bit counters)"],
    }
    rule = ("one evaluation = one simulated run: 1-2 clients each driving a padding object's iterblocks generator one pull at "
            "a time through 1-2 messages (0-3 block-aligned continuation calls incl. empty pieces, then a final call; optional "
            "bit length; call after the final block; refused requests; abandon + reset; a continuation call abandoned part-way and the "
            "message carried on from the bits handed out); block bytes, block length, bitcnt at "
            "every yield, padcnt/padflag after the final block, block count and refusals compared with the reference layout "
            "model. distinct = distinct abstract traces (scheme, block-size class, call kinds, piece-length classes, pulls, "
            "abandon/reset); non-trivial = the run has a continuation call, an abandon+reset, a call after the final block, "
            "a pad-only extra block or a bit length that is not a multiple of 8")
    assumptions = ["convention: the final call emits at least one block (empty message under zero padding = one all-zero block, "
                   "under nopadding = one empty block)",
                   "bit length is only passed on single-call messages: its meaning on a continuation call is not defined by the property"]

    def _call(self, pb, c, o, piece, kw, kind, npulls, sess, extra_pull=True):
        sid = pb.step(c, k="call", obj=o, name="iterblocks", args=[B(piece)], kw=kw, tag=kind, role="start")
        rec = {"start": sid, "pulls": [], "kind": kind}
        sess["calls"].append(rec)
        n = npulls + (1 if extra_pull else 0)
        if sess.get("_defer") is not None:
            sess["_defer"].append((rec, sid, n))       # generators are obtained up front, drained later
        else:
            for _ in range(n):
                rec["pulls"].append(pb.step(c, k="pull", gen=sid, n=1, obj=o, tag="pull", role="pull"))
        return sid

    def _flush(self, pb, c, o, sess):
        for rec, sid, n in sess.get("_defer") or []:
            for _ in range(n):
                rec["pulls"].append(pb.step(c, k="pull", gen=sid, n=1, obj=o, tag="pull", role="pull"))
        sess["_defer"] = None

    def _message(self, rng, pb, c, o, scheme, prm, sess, abandon=False):
        # one message in five: all generators of the message (continuation calls, final call, the
        # call after the final block) are obtained first - itertools.chain(a.iterblocks(..),..) -
        # and only then drained in order; being lazy, they must behave exactly the same
        if not abandon and rng.random() < 0.2:
            sess["_defer"] = []
            sess["upfront"] = sess.get("upfront", 0) + 1
        try:
            return self._message1(rng, pb, c, o, scheme, prm, sess, abandon)
        finally:
            self._flush(pb, c, o, sess)

    def _message1(self, rng, pb, c, o, scheme, prm, sess, abandon=False):
        nB = prm["B"] // 8
        k = rng.choice([0, 0, 0, 1, 1, 2, 3])
        prior = 0
        abandon_at = rng.randrange(k + 1) if abandon else None
        for ci in range(k):
            piece = rbytes(rng, nB * rng.choice([0, 1, 1, 2, 3, 3, 6]))
            blocks, _ = continuation_layout(prm, prior, piece)
            n = len(blocks)
            if abandon_at == ci and n > 0:
                j = rng.randrange(n)
                sid = self._call(pb, c, o, piece, {"padding": False}, "cont", j, sess, extra_pull=False)
                go_on = rng.random() < 0.5
                if go_on or rng.random() < 0.5:
                    pb.step(c, k="close", gen=sid, obj=o, tag="close", role="close")
                sess["calls"][-1]["abandoned"] = True
                if go_on:
                    # the consumer stopped reading this continuation call after j blocks and carries on with
                    # the rest of its message: the counter continues from the bits it was handed
                    sess["calls"][-1]["resumed"] = True
                    prior += 8 * nB * j
                    continue
                return False
            self._call(pb, c, o, piece, {"padding": False}, "cont", n, sess, extra_pull=rng.random() < 0.5)
            prior += 8 * len(piece)
        ln = rng.choice(final_len_classes(scheme, prm) + [rng.randrange(0, 3 * nB)])
        piece = rbytes(rng, ln) if rng.random() < 0.8 else bytes(ln)
        kw = {}
        L = None
        if k == 0 and scheme in BIT_SCHEMES and ln > 0 and rng.random() < 0.5:
            L = 8 * ln - rng.randint(0, 7) if rng.random() < 0.7 else rng.randint(1, 8 * ln)
            kw["bitlen"] = L
        prevf = sess.get("_lastfinal")
        if prevf is not None and rng.random() < 0.4:
            # the same last piece as the previous message of this object, under another total length
            piece, L0 = prevf
            ln = len(piece)
            kw = {}
            L = None
            if k == 0 and L0 is not None:
                L, kw = L0, {"bitlen": L0}
        sess["_lastfinal"] = (piece, L if k == 0 else None)
        if rng.random() < 0.5:
            kw["padding"] = True
        blocks, _, _ = final_layout(scheme, prm, prior, piece, L)
        n = len(blocks)
        if abandon and abandon_at == k:
            j = rng.randrange(n)
            sid = self._call(pb, c, o, piece, kw, "final", j, sess, extra_pull=False)
            if rng.random() < 0.5:
                pb.step(c, k="close", gen=sid, obj=o, tag="close", role="close")
            sess["calls"][-1]["abandoned"] = True
            return False
        self._call(pb, c, o, piece, kw, "final", n, sess, extra_pull=rng.random() < 0.7)
        if rng.random() < 0.4:
            p2 = rbytes(rng, rng.choice([0, 1, nB, nB + 1]))
            kw2 = {} if rng.random() < 0.6 else {"padding": False}
            if kw2 and len(p2) % nB:
                p2 = p2[:len(p2) - len(p2) % nB]
            self._call(pb, c, o, p2, kw2, "after_final", 0, sess)
        return True

    def _refusal(self, rng, pb, c, o, scheme, prm, sess):
        nB = prm["B"] // 8
        if rng.random() < 0.5 and nB > 1:
            piece = rbytes(rng, nB * rng.randint(0, 2) + rng.randint(1, nB - 1))
            self._call(pb, c, o, piece, {"padding": False}, "refuse_unaligned", 0, sess)
        else:
            piece = rbytes(rng, rng.choice([0, 1, nB, nB + 2]))
            self._call(pb, c, o, piece, {"bitlen": 8 * len(piece) + rng.randint(1, 16)}, "refuse_bitlen", 0, sess)

    def _session(self, rng, pb, c, same_as=None):
        if same_as is not None and rng.random() < 0.7:
            scheme, prm, rec = same_as
        else:
            scheme, prm, rec = pick_scheme(rng)
        o = pb.obj(dict(rec))
        sess = {"obj": o, "scheme": scheme, "prm": prm, "calls": [], "c": c}
        nmsg = rng.choice([1, 1, 2, 2, 3])
        for mi in range(nmsg):
            if mi > 0:
                if rng.random() < 0.5:
                    rid = pb.step(c, k="call", obj=o, name="reset", args=[], kw={}, tag="reset", role="reset")
                else:
                    rid = pb.step(c, k="get", obj=o, path="new", tag="new", role="reset")
                sess["calls"].append({"kind": "reset", "start": rid, "pulls": []})
            r = rng.random()
            if r < 0.15:
                self._refusal(rng, pb, c, o, scheme, prm, sess)
                # a refused request leaves the object usable: follow up without reset half the time
                if rng.random() < 0.5:
                    self._message(rng, pb, c, o, scheme, prm, sess)
            elif r < 0.35:
                self._message(rng, pb, c, o, scheme, prm, sess, abandon=True)
                rid = pb.step(c, k="call", obj=o, name="reset", args=[], kw={}, tag="reset", role="reset")
                sess["calls"].append({"kind": "reset", "start": rid, "pulls": []})
                self._message(rng, pb, c, o, scheme, prm, sess)
            else:
                self._message(rng, pb, c, o, scheme, prm, sess)
        pb.plan["observe"] += [[o, "bitcnt"], [o, "padcnt"], [o, "padflag"]]
        sess.pop("_defer", None)
        sess.pop("_lastfinal", None)
        return sess, (scheme, prm, rec)

    def gen(self, rng, idx, seed):
        pb = PlanBuilder(self.prop, seed, idx)
        sessions = []
        s0, cfg = self._session(rng, pb, pb.client())
        sessions.append(s0)
        if rng.random() < 0.4:
            s1, _ = self._session(rng, pb, pb.client(), same_as=cfg)
            sessions.append(s1)
        plan = pb.finish(rng)
        plan["meta"]["sessions"] = sessions
        plan["fp"] = [s["obj"] for s in sessions]
        return plan

    # -----------------------------------------------------------------------------------------
    def check(self, plan, hist, oracle):
        by_id = {e["id"]: e for e in hist}
        step_by_id = {s["id"]: s for s in plan["steps"]}
        obs_pos = {}
        for j, (o, path) in enumerate(plan.get("observe", [])):
            obs_pos[(o, path)] = j
        vs = []
        probes = {}
        nontrivial = False
        fcount = {"abandon": [0, 0]}
        trace = []

        def probe(n, k=1):
            probes[n] = probes.get(n, 0) + k

        for sess in plan["meta"].get("sessions", []):
            # the shrinker may drop whole calls (start + pulls) or trailing pulls of a call: the
            # session is what is left of it (a call with fewer pulls than blocks counts as abandoned)
            calls = []
            for c in sess["calls"]:
                if c["start"] not in by_id:
                    continue
                c = dict(c, pulls=[p for p in c["pulls"] if p in by_id])
                calls.append(c)
            if not calls:
                continue
            sess = dict(sess, calls=calls)
            scheme, prm, o = sess["scheme"], sess["prm"], sess["obj"]
            nB = prm["B"] // 8
            kind = scheme

            def obs(e, path):
                return e["obs"][obs_pos[(o, path)]]
            prior = 0
            finished = False
            dirty = False          # an abandoned generator makes the object's state undefined until reset
            tr = [scheme, "B%d" % prm["B"]]
            for call in sess["calls"]:
                ck = call["kind"]
                if ck == "reset":
                    prior, finished, dirty = 0, False, False
                    e = by_id[call["start"]]
                    tr.append("reset")
                    if e["out"][0] != "ok":
                        vs.append(vio("reset_failed", kind, "reset", call["start"], {"got": e["out"]}))
                    elif (obs(e, "bitcnt"), obs(e, "padcnt"), obs(e, "padflag")) != (0, 0, False):
                        vs.append(vio("reset_state", kind, "reset", call["start"],
                                      {"bitcnt": obs(e, "bitcnt"), "padcnt": obs(e, "padcnt"), "padflag": obs(e, "padflag")}))
                    continue
                if dirty:
                    break
                if finished and ck in ("cont", "final"):
                    probe("harness_inconsistency")
                    break       # (only through shrinking: the reset in between was dropped)
                st = step_by_id[call["start"]]
                piece = bytes.fromhex(st["args"][0]["b"])
                kw = st.get("kw", {})
                L = kw.get("bitlen")
                pulls = [by_id[p] for p in call["pulls"]]
                tr.append("%s:%s%s:p%d" % (ck, _lenclass(len(piece), nB), "+bl%d" % (L % 8) if L else "", len(pulls)))
                if call.get("abandoned"):
                    fcount["abandon"][0] += 1
                    fcount["abandon"][1] += 1
                if ck in ("refuse_unaligned", "refuse_bitlen", "after_final"):
                    if ck == "after_final" and not finished:
                        break
                    e = pulls[0] if pulls else None
                    # refused = the call itself raised, or (lazy generator) its first pull did
                    if by_id[call["start"]]["out"][0] == "exc":
                        e = None
                    if e is not None and e["out"][0] != "exc":
                        vs.append(vio("not_refused", kind, ck, call["pulls"][0], {"got": e["out"], "piece_len": len(piece), "kw": kw}))
                    if ck == "after_final":
                        probe("call_after_final")
                        nontrivial = True
                    else:
                        probe("refused_request")
                    continue
                if ck == "cont":
                    if len(piece) % nB:
                        probe("harness_inconsistency")
                        break
                    blocks, counters = continuation_layout(prm, prior, piece)
                    padbits = None
                    final = False
                    probe("continuation_call")
                    nontrivial = True
                    if not piece:
                        probe("empty_nonfinal_piece")
                else:
                    if scheme in BYTE_SCHEMES and L is not None:
                        probe("harness_inconsistency")
                        break
                    if L is not None and (L > 8 * len(piece) or L <= 0):
                        probe("harness_inconsistency")
                        break
                    blocks, counters, padbits = final_layout(scheme, prm, prior, piece, L)
                    final = True
                    if L is not None and L % 8:
                        probe("bitlen_mod8_nonzero")
                        nontrivial = True
                    if counters[-1] == 0 and (prior + (L if L is not None else 8 * len(piece))) > 0:
                        probe("pad_only_extra_block")
                        nontrivial = True
                    if prior and not piece:
                        probe("empty_final_piece_after_data")
                bad = False
                # an empty final piece under zero padding / no padding: the extra all-zero / empty
                # block is accepted, and so is emitting nothing (both are 'minimal' readings)
                optional = final and scheme in ("Nullpadding", "nopadding") and not piece and len(blocks) == 1
                if optional and pulls:
                    o0 = pulls[0]["out"]
                    if o0[0] == "ok" and o0[1] and o0[1][0] == {"stop": 1}:
                        probe("optional_padonly_block_not_emitted")
                        finished = True
                        continue
                for i, e in enumerate(pulls):
                    out = e["out"]
                    if i < len(blocks):
                        if out[0] != "ok":
                            vs.append(vio("unexpected_error", kind, ck, call["pulls"][i], {"got": out, "block": i, "piece_len": len(piece), "kw": kw}))
                            bad = True
                            break
                        item = out[1][0] if out[1] else None
                        if item == {"stop": 1}:
                            vs.append(vio("block_count", kind, ck, call["pulls"][i], {"missing_block": i, "expected_blocks": len(blocks), "piece_len": len(piece), "kw": kw}))
                            bad = True
                            break
                        got = bytes.fromhex(item["b"]) if isinstance(item, dict) and "b" in item else None
                        if got != blocks[i]:
                            chk = "block_len" if (got is not None and len(got) != len(blocks[i])) else "block_bytes"
                            vs.append(vio(chk, kind, ck, call["pulls"][i], {"block": i, "got": item, "expected": blocks[i].hex(), "piece_len": len(piece), "prior_bits": prior, "kw": kw}))
                            bad = True
                            break
                        if obs(e, "bitcnt") != counters[i]:
                            vs.append(vio("bitcnt_at_yield", kind, ck, call["pulls"][i], {"block": i, "bitcnt": obs(e, "bitcnt"), "expected": counters[i], "piece_len": len(piece), "prior_bits": prior, "kw": kw}))
                            bad = True
                            break
                        if (not final or i < len(blocks) - 2) and obs(e, "padflag") is not False:
                            vs.append(vio("padflag_early", kind, ck, call["pulls"][i], {"block": i, "blocks": len(blocks), "padflag": obs(e, "padflag")}))
                            bad = True
                            break
                        if final and i == len(blocks) - 1:
                            if obs(e, "padflag") is not True:
                                vs.append(vio("padflag", kind, ck, call["pulls"][i], {"padflag": obs(e, "padflag")}))
                            if padbits is not None and scheme != "nopadding" and obs(e, "padcnt") != padbits:
                                vs.append(vio("padcnt", kind, ck, call["pulls"][i], {"padcnt": obs(e, "padcnt"), "expected": padbits, "piece_len": len(piece), "kw": kw}))
                    else:
                        item = out[1][0] if out[0] == "ok" and out[1] else None
                        if out[0] != "ok" or item != {"stop": 1}:
                            vs.append(vio("block_count", kind, ck, call["pulls"][i], {"extra": out, "expected_blocks": len(blocks), "piece_len": len(piece), "kw": kw}))
                            bad = True
                        break
                if bad:
                    break
                if len(pulls) < len(blocks) and ck == "cont" and call.get("resumed"):
                    probe("abandoned_continuation_then_continued")
                    nontrivial = True
                    prior += 8 * nB * len(pulls)
                    continue
                if len(pulls) < len(blocks):
                    dirty = True        # abandoned part-way (or shrunk): nothing is promised until reset
                    probe("abandoned_generator")
                    nontrivial = True
                    continue
                probe("calls_fully_checked")
                if final:
                    finished = True
                else:
                    prior += 8 * len(piece)
            trace.append(",".join(tr))
        probe("messages_with_generators_obtained_up_front", sum(s_.get("upfront", 0) for s_ in plan["meta"].get("sessions", [])))
        probe("sessions", len(trace))
        extra = {"faults": fcount, "fps": sorted(set(f for e in hist for f in e.get("fp", [])))}
        # interleaving is part of the trace: order of clients in the linear schedule
        sched = "".join(str(s.get("c", 0)) for s in plan["steps"])
        return vs, probes, "|".join(trace) + "#" + sched, nontrivial, extra


def _lenclass(n, nB):
    if n == 0:
        return "0"
    q, r = divmod(n, nB)
    return "%db%s" % (min(q, 3), "" if r == 0 else ("+1" if r == 1 else ("-1" if r == nB - 1 else "+r")))
