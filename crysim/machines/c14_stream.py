"""C14 - hashing a message piecewise gives the same digest as hashing it at once.

Each stream client owns one hash object: initstate(); update(piece)* ; update(last,padding=True).
1-3 streams on sibling instances are interleaved at piece granularity with noise clients making
(possibly faulted) one-shot calls on *other* instances and on the module singletons.
Checked while the run proceeds: padmethod.bitcnt == 8 * bytes fed after every non-final piece.
Checked over the history: final digest == pristine one-shot on the concatenation.
"""
from ..base import B
from ..plan import PlanBuilder
from .common import Machine, rbytes, vio

HASHES = [
    ("MD4", {"kind": "MD4"}, 64, 4), ("MD5", {"kind": "MD5"}, 64, 4),
    ("SHA0", {"kind": "SHA1", "version": 0}, 64, 4), ("SHA1", {"kind": "SHA1", "version": 1}, 64, 4),
    ("SHA224", {"kind": "SHA2", "size": 224}, 64, 4), ("SHA256", {"kind": "SHA2", "size": 256}, 64, 4),
    ("SHA384", {"kind": "SHA2", "size": 384}, 128, 8), ("SHA512", {"kind": "SHA2", "size": 512}, 128, 8),
    ("SHA512_224", {"kind": "SHA2", "size": 512, "t": 224}, 128, 8),
    ("SHA512_256", {"kind": "SHA2", "size": 512, "t": 256}, 128, 8),
    ("Blake224", {"kind": "Blake", "size": 224}, 64, 4), ("Blake256", {"kind": "Blake", "size": 256}, 64, 4),
    ("Blake384", {"kind": "Blake", "size": 384}, 128, 8), ("Blake512", {"kind": "Blake", "size": 512}, 128, 8),
    ("Blake2s", {"kind": "Blake2", "size": 256}, 64, 4), ("Blake2b", {"kind": "Blake2", "size": 512}, 128, 8),
]
SINGLETON_OF = {"Blake224": "crysp.blake.blake224", "Blake256": "crysp.blake.blake256",
                "Blake384": "crysp.blake.blake384", "Blake512": "crysp.blake.blake512",
                "Blake2s": "crysp.blake.blake2s", "Blake2b": "crysp.blake.blake2b"}


def tails(bb, w):
    spill = bb - 1 - 2 * w
    return [0, 1, spill - 1, spill, spill + 1, bb - 1]


def _enum():
    """(hash index, n full blocks, tail class index, cut subset bitmask over boundaries 0..n,
    boundary to duplicate or -1)"""
    out = []
    for hi in range(len(HASHES)):
        for n in range(0, 5):
            for ti in range(6):
                for mask in range(1 << (n + 1)):
                    out.append((hi, n, ti, mask, -1))
                for d in range(n + 1):
                    out.append((hi, n, ti, (1 << (n + 1)) - 1, d))
    return out


_ENUM = _enum()


def _pieces(st, step_by_id):
    """The pieces as the (possibly shrunk) steps actually carry them."""
    def content(t):
        return bytes.fromhex(t["piece_hex"] if "piece_hex" in t else t["args"][0]["b"])
    out = [content(step_by_id[u]) for u in st["upd"]]
    f = step_by_id[st["fin"]]
    if f.get("args"):
        out.append(content(f))
    return out


class C14(Machine):
    prop = "C14"
    title = "piecewise hashing == one-shot"
    runs = (2400, 100000)
    components = {
        "real": ["crysp.md MD4/MD5", "crysp.sha SHA1/SHA2", "crysp.blake Blake/Blake2 (+ singletons as noise and stream owners)",
                 "crysp.nilsimsa Nilsimsa", "crysp.padding blockiterator/MDpadding/SHApadding/Blakepadding/Nullpadding",
                 "crysp.bits", "crysp.poly"],
        "stub": [],
    }
    rule = ("one evaluation = one simulated run: 1-3 stream clients (initstate, 0-6 block-aligned pieces incl. empty and "
            "multi-block ones, final piece of any length) on sibling hash objects interleaved at piece granularity with "
            "noise clients (one-shot calls, some faulted, on other instances/singletons); final digest compared with the "
            "pristine one-shot of the concatenation, bit counter checked after every non-final piece. distinct = distinct "
            "abstract traces (client, hash kind, piece class sequence, noise ops, faults); non-trivial = a judged stream with "
            ">=1 non-final piece or another client's step interleaved between its pieces")
    assumptions = ["during a stream faults are injected only on objects other than the stream's own (nothing is promised for a stream after a failed update); before initstate() the stream's own object may have seen a rejected or interrupted one-shot call"]

    def _stream(self, rng, pb, c, name, recipe, bb, w, streams, enum=None, obj=None, warm=False):
        o = pb.obj(dict(recipe)) if obj is None else obj
        if enum is not None:
            _, n, ti, mask, dup = enum
            tail = tails(bb, w)[ti]
            cuts = [i * bb for i in range(n + 1) if mask >> i & 1]
            if dup >= 0:
                cuts.append(dup * bb)
            cuts.sort()
            total = n * bb + tail
        else:
            n = rng.choice([0, 1, 1, 2, 2, 3, 4, 6, 9, 13])
            tail = rng.choice(tails(bb, w) + [rng.randrange(bb), 0])
            if rng.random() < 0.15:
                tail += bb * rng.randint(1, 2)          # final piece spanning several blocks
            total = n * bb + tail
            k = rng.choice([0, 1, 1, 2, 2, 3, 4, 5, 8, 11])
            cuts = sorted(rng.randint(0, n) * bb for _ in range(k))
        M = rbytes(rng, total) if rng.random() < 0.8 else bytes(total)
        if warm:
            # history on the stream's own object BEFORE initstate(): a one-shot call, possibly
            # rejected (bit length beyond the data) or interrupted - initstate() must start afresh
            wm = rbytes(rng, rng.choice([0, 3, bb - 4, bb, bb + 1, 2 * bb + 5]))
            v = rng.random()
            if v >= 0.8:
                # a finished stream plus a mistaken second final update (refused) on this object
                pb.step(c, k="call", obj=o, name="initstate", args=[], kw={}, tag="warm_init", kind=name, role="noise")
                pb.step(c, k="call", obj=o, name="update", args=[B(wm)], kw={"padding": True}, tag="warm_final", kind=name, role="noise")
                pb.step(c, k="call", obj=o, name="update", args=[B(wm[:3])], kw={"padding": True}, tag="warm_final_again", kind=name,
                        role="noise", cls="bad")
            elif v < 0.2 and name not in ("Blake2s", "Blake2b"):
                pb.step(c, k="call", obj=o, name="__call__", args=[B(wm)], kw={"bitlen": 8 * len(wm) + 5},
                        tag="warm_rejected", kind=name, role="noise", cls="bad")
            else:
                wkw = {}
                if name.startswith("Blake") and not name.startswith("Blake2") and rng.random() < 0.5:
                    wkw["s"] = rng.getrandbits(4 * w * 8)                 # a salted one-shot before the stream
                elif name in ("Blake2s", "Blake2b") and rng.random() < 0.5:
                    wkw[rng.choice(["salt", "pers"])] = B(rbytes(rng, 2 * w))
                    if rng.random() < 0.5:
                        wkw["outlen"] = rng.randint(1, 8 * w - 1)
                elif wm and rng.random() < 0.3 and not name.startswith("Blake2"):
                    wkw["bitlen"] = 8 * len(wm) - rng.randint(1, 7)
                wid = pb.step(c, k="call", obj=o, name="__call__", args=[B(wm)], kw=wkw,
                              tag="warm_oneshot" + ("_opts" if wkw else ""), kind=name, role="noise")
                if v < 0.5:
                    pb.plan["meta"].setdefault("warm_faults", []).append(wid)
        # one random BLAKE/BLAKE2 stream in three is started with options (salt, personalisation, output
        # length): the one-shot call it is compared with carries the same options
        ikw, okw = {}, {}
        if enum is None and name.startswith("Blake") and rng.random() < 0.33:
            if name in ("Blake2s", "Blake2b"):
                for f in ("salt", "pers"):
                    if rng.random() < 0.4:
                        ikw[f] = B(rbytes(rng, 2 * w))
                if rng.random() < 0.6 or not ikw:
                    ikw["outlen"] = rng.randint(1, 8 * w - 1)
                okw = dict(ikw)
            else:
                sv = rng.getrandbits(4 * w * 8)
                ikw, okw = {"salt": sv}, {"s": sv}
        ini = pb.step(c, k="call", obj=o, name="initstate", args=[], kw=ikw, tag="init_opts" if ikw else "init", kind=name, role="init")
        pos = 0
        st = {"obj": o, "kind": name, "pieces": [], "upd": [], "fin": None, "recipe": recipe, "c": c, "init": ini}
        if okw:
            st["opts"] = okw
        # one stream in seven reads its pieces through ONE reused bytearray (readinto-style loop)
        buf = pb.obj({"kind": "value", "val": {"ba": ""}}) if (enum is None and rng.random() < 0.15) else None
        if buf is not None:
            st["buf"] = buf

        def arg(piece):
            if buf is None:
                return [B(piece)], {}
            pb.step(c, k="mutate", obj=buf, val=B(piece), tag="buf", kind=name, role="mut")
            return [{"obj": buf}], {"piece_hex": piece.hex()}
        for cut in cuts:
            piece = M[pos:cut]
            a_, ex_ = arg(piece)
            sid = pb.step(c, k="call", obj=o, name="update", args=a_, kw={}, **ex_,
                          tag="upd0" if not piece else ("upd%d" % min(3, len(piece) // bb)), kind=name, role="upd")
            st["upd"].append(sid)
            st["pieces"].append(piece.hex())
            pos = cut
        last = M[pos:]
        ftag = "fin0" if not last else ("fin_part" if len(last) < bb else "fin_multi")
        a_, ex_ = arg(last)
        st["fin"] = pb.step(c, k="call", obj=o, name="update", args=a_, kw={"padding": True}, tag=ftag,
                            kind=name, role="fin", **ex_)
        st["pieces"].append(last.hex())
        streams.append(st)
        pb.plan["observe"].append([o, "padmethod.bitcnt"])
        return o

    def _nilsimsa(self, rng, pb, c, streams, reuse=None):
        rec = {"kind": "Nilsimsa"}
        if rng.random() < 0.3:
            rec["target"] = rng.choice([53, 17, 101])
        if reuse is not None:
            o, rec = reuse
        else:
            o = pb.obj(rec)
        total = rng.choice([0, 1, 2, 3, 4, 5, 6, 9, 20, 40, 40, 20, 9, 5, 130, 253, 254, 257, 300, 520, 700 + rng.randrange(600)])
        M = rbytes(rng, total)
        k = rng.choice([1, 1, 2, 3, 4])
        cuts = sorted(rng.randint(0, total) if rng.random() < 0.7 else rng.randint(0, min(total, 5)) for _ in range(k))
        st = {"obj": o, "kind": "Nilsimsa", "pieces": [], "upd": [], "fin": None, "recipe": rec, "c": c}
        pos = 0
        for cut in cuts + [total]:
            piece = M[pos:cut]
            sid = pb.step(c, k="call", obj=o, name="update", args=[B(piece)], kw={}, tag="nupd0" if not piece else "nupd",
                          kind="Nilsimsa", role="upd")
            st["upd"].append(sid)
            st["pieces"].append(piece.hex())
            pos = cut
        st["fin"] = pb.step(c, k="call", obj=o, name="digest", args=[], kw={}, tag="ndigest", kind="Nilsimsa", role="fin")
        streams.append(st)
        if reuse is None and rng.random() < 0.3:
            self._nilsimsa(rng, pb, c, streams, reuse=(o, rec))     # a second stream on the object (digest() resets it)

    def _noise(self, rng, pb, c, faulty, no_singletons=False):
        from .c10_oneshot import KINDS, BAD, ABN, Ctx
        kn = rng.choice(["SHA1", "SHA2", "MD5", "Blake", "blake_singleton", "Blake2", "blake2_singleton", "Nilsimsa", "MD4"])
        if no_singletons and kn.endswith("_singleton"):
            kn = {"blake_singleton": "Blake", "blake2_singleton": "Blake2"}[kn]
        o, info = KINDS[kn][1](rng, pb, False)
        x = Ctx(rng, pb, kn, o, info)
        ops = KINDS[kn][2]
        names = [n for n in sorted(ops) if ops[n][0] not in (BAD, ABN) or faulty]
        for _ in range(rng.randint(1, 3)):
            ops[rng.choice(names)][1](x, c)
        return o

    def gen(self, rng, idx, seed):
        pb = PlanBuilder(self.prop, seed, idx)
        streams = []
        faulty = rng.random() < 0.5
        enum = _ENUM[(idx // 2) % len(_ENUM)] if idx % 2 == 0 else None
        owns_singleton = False
        if enum is None and rng.random() < 0.15:
            self._nilsimsa(rng, pb, pb.client(), streams)
            if rng.random() < 0.5:
                self._nilsimsa(rng, pb, pb.client(), streams)
        else:
            hi = enum[0] if enum else rng.randrange(len(HASHES))
            name, recipe, bb, w = HASHES[hi]
            own_single = name in SINGLETON_OF and rng.random() < 0.25
            obj = pb.obj({"kind": "attr", "path": SINGLETON_OF[name]}) if own_single else None
            owns_singleton = own_single
            self._stream(rng, pb, pb.client(), name, recipe, bb, w, streams, enum, obj=obj, warm=rng.random() < 0.3)
            ns = rng.choice([0, 0, 1, 1, 2])
            for _ in range(ns):
                # sibling stream: same class (class-level state) most of the time
                v = rng.random()
                if v < 0.5:
                    n2, r2, b2, w2 = name, recipe, bb, w
                elif v < 0.8:
                    # a cousin: same family, other size / variant
                    fam = [h for h in HASHES if h[1]["kind"] == recipe["kind"] and h[0] != name]
                    n2, r2, b2, w2 = rng.choice(fam) if fam else (name, recipe, bb, w)
                else:
                    n2, r2, b2, w2 = HASHES[rng.randrange(len(HASHES))]
                self._stream(rng, pb, pb.client(), n2, r2, b2, w2, streams, None, warm=rng.random() < 0.2)
            if rng.random() < 0.2:
                # a second stream on the same object after the first one finished
                st = streams[0]
                self._stream(rng, pb, st["c"], st["kind"], st["recipe"], bb, w, streams, None, obj=st["obj"])
        noise_objs = []
        for _ in range(rng.choice([0, 1, 1, 2])):
            noise_objs.append(self._noise(rng, pb, pb.client(), faulty, owns_singleton))
        plan = pb.finish(rng)
        stream_objs = set(s["obj"] for s in streams)
        if faulty:
            cands = [s for s in plan["steps"] if s.get("obj") not in stream_objs and s["k"] == "call"
                     and s.get("cls") != "bad"]
            for s in rng.sample(cands, min(len(cands), rng.choice([0, 1, 1, 2]))):
                s["fault"] = {"kind": "interrupt", "u": rng.random()}
        for s in plan["steps"]:
            if s["id"] in plan["meta"].get("warm_faults", []):
                s["fault"] = {"kind": "interrupt", "u": rng.random()}
                s["tag"] = "warm_interrupted"
        plan["meta"]["streams"] = streams
        plan["fp"] = sorted(stream_objs)
        return plan

    def check(self, plan, hist, oracle):
        by_id = {e["id"]: e for e in hist}
        order = {s["id"]: i for i, s in enumerate(plan["steps"])}
        step_by_id = {s["id"]: s for s in plan["steps"]}
        obs_idx = {}
        for j, (o, path) in enumerate(plan.get("observe", [])):
            obs_idx.setdefault(o, j)
        vs = []
        probes = {}

        def probe(n, k=1):
            probes[n] = probes.get(n, 0) + k
        nontrivial = False
        fcount = {}
        for s in plan["steps"]:
            e = by_id[s["id"]]
            if s.get("fault"):
                d = fcount.setdefault(s["fault"]["kind"], [0, 0])
                d[0] += 1
                d[1] += 1 if e.get("flt", {}).get("fired") else 0
            if s.get("cls") == "bad":
                d = fcount.setdefault("bad_call", [0, 0])
                d[0] += 1
                d[1] += 1 if e["out"][0] == "exc" else 0
        for st in plan["meta"].get("streams", []):
            if st["fin"] not in by_id or st.get("init", st["fin"]) not in by_id:
                continue        # the stream was removed by the shrinker
            if "buf" in st:
                # buffered stream: every update must still be preceded by its own buffer refill
                ok_buf = True
                steps_ = plan["steps"]
                for i_, t_ in enumerate(steps_):
                    if t_["id"] in st["upd"] + [st["fin"]] and "piece_hex" in t_:
                        prev = [q for q in steps_[:i_] if q.get("obj") == st["buf"] and q.get("k") == "mutate"]
                        if not prev or prev[-1]["val"]["b"] != t_["piece_hex"]:
                            ok_buf = False
                if not ok_buf:
                    continue
                probe("stream_through_one_reused_bytearray")
            # non-final pieces may be dropped by the shrinker: the stream is what is left of it
            st = dict(st, upd=[u for u in st["upd"] if u in by_id])
            kind = st["kind"]
            fed = 0
            pieces = _pieces(st, step_by_id)
            ok = True
            for sid, piece in zip(st["upd"], pieces[:len(st["upd"])]):
                e = by_id[sid]
                fed += len(piece)
                if e["out"][0] != "ok":
                    vs.append(vio("piece_rejected", kind, step_by_id[sid].get("tag"), sid,
                                  {"got": e["out"], "piece_len": len(piece), "fed_before": fed - len(piece)}))
                    ok = False
                    break
                if kind != "Nilsimsa":
                    j = obs_idx.get(st["obj"])
                    cnt = e["obs"][j] if j is not None and "obs" in e else None
                    if cnt != 8 * fed:
                        vs.append(vio("bitcnt_after_piece", kind, step_by_id[sid].get("tag"), sid,
                                      {"bitcnt": cnt, "expected": 8 * fed}))
                if not piece:
                    probe("empty_nonfinal_piece")
            if not ok:
                continue
            M = b"".join(pieces)
            e = by_id[st["fin"]]
            rec = dict(st["recipe"])
            okw = st.get("opts", {})
            if okw and step_by_id[st["init"]].get("kw", {}) != ({"salt": okw["s"]} if "s" in okw else okw):
                continue        # (only through shrinking) the stream no longer starts with the options it is compared under
            if okw:
                probe("stream_started_with_options")
            mini = {"objects": [rec], "steps": [{"id": 1, "k": "call", "obj": 0, "name": "__call__", "args": [B(M)], "kw": okw}],
                    "observe": [], "fp": []}
            exp = oracle.ask(mini)[0]["out"]
            if exp[0] == "ok" and e["out"] != exp:
                vs.append(vio("piecewise_digest", kind, step_by_id[st["fin"]].get("tag"), st["fin"],
                              {"got": e["out"], "oneshot": exp, "pieces": [len(p) for p in pieces]}))
            probe("judged_streams")
            ids = [x for x in st["upd"]] + [st["fin"]]
            lo, hi = order[ids[0]], order[ids[-1]]
            inter = [t for t in plan["steps"][lo:hi + 1] if t.get("obj") != st["obj"]]
            if inter:
                probe("other_client_step_between_pieces")
                if any(t.get("role") in ("upd", "fin", "init") and t.get("kind") == kind for t in inter):
                    probe("interleaved_sibling_stream_same_class")
                if any(by_id[t["id"]].get("flt", {}).get("fired") or (t.get("cls") == "bad") for t in inter):
                    probe("faulted_noise_between_pieces")
            pre = [t for t in plan["steps"][:lo] if t.get("obj") == st["obj"]]
            if pre and pre[-1].get("role") == "init" and len(pre) >= 2 and pre[-2].get("tag") in ("warm_interrupted", "warm_rejected", "warm_final_again"):
                probe("stream_started_after_failed_oneshot_on_same_object")
            if len(pieces) > 1 or inter:
                nontrivial = True
            if len(pieces) >= 3:
                probe("three_or_more_pieces")
            if not pieces[-1] and M:
                probe("empty_final_piece_total_gt0")
            bb = {h[0]: h[2] for h in HASHES}.get(kind)
            if bb and len(pieces[-1]) >= 2 * bb:
                probe("final_piece_ge_2_blocks")
            if bb and any(len(p) >= 2 * bb for p in pieces[:-1]):
                probe("nonfinal_piece_ge_2_blocks")
            if bb:
                w = {h[0]: h[3] for h in HASHES}[kind]
                sp = bb - 1 - 2 * w
                if len(pieces[-1]) % bb in (sp, sp + 1):
                    probe("spill_boundary_in_final_piece")
        trace = "|".join("%d:%s:%s%s" % (s.get("c", 0), s.get("kind", "?"), s.get("tag", s["k"]),
                                         "!" if s.get("fault") else "") for s in plan["steps"])
        extra = {"faults": fcount,
                 "fps": sorted(set(f for e in hist for f in e.get("fp", [])))}
        return vs, probes, trace, nontrivial, extra

    def totals(self):
        return {"enumerated_cut_sets_up_to_4_blocks": len(_ENUM)}

    def explain_blake2_empty_final_orig(self, plan, v):
        """the stream as generated (before minimisation) already has the finding's shape"""
        return self.explain_blake2_empty_final(plan, v)

    def explain_blake2_empty_final(self, plan, v):
        """Known finding C14/blake2-empty-final: all data fed by non-final updates, empty final
        piece, total > 0, on a Blake2 object."""
        if v["kind"] not in ("Blake2s", "Blake2b") or v["check"] != "piecewise_digest":
            return False
        step_by_id = {s["id"]: s for s in plan["steps"]}
        for st in plan["meta"].get("streams", []):
            if st["fin"] == v["step"]:
                st = dict(st, upd=[u for u in st["upd"] if u in step_by_id])
                pieces = _pieces(st, step_by_id)
                return pieces[-1] == b"" and any(p for p in pieces[:-1])
        return False
