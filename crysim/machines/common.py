"""Helpers shared by machines: message pools, length classes, base class."""
from ..base import B


def rbytes(rng, n):
    return bytes(rng.getrandbits(8) for _ in range(n))


def msg_of_len(rng, n, style=None):
    style = style if style is not None else rng.randrange(4)
    if style == 0:
        return rbytes(rng, n)
    if style == 1:
        return bytes(n)
    if style == 2:
        return b"\xff" * n
    return bytes((i * 7 + 3) & 0xFF for i in range(n))


def hash_len_classes(blockbytes, wordbytes):
    spill = blockbytes - 1 - 2 * wordbytes
    c = [0, 1, 3, spill - 1, spill, spill + 1, blockbytes - 1, blockbytes, blockbytes + 1,
         blockbytes + spill, blockbytes + spill + 1, 2 * blockbytes, 2 * blockbytes + 5,
         3 * blockbytes]
    return sorted(set(x for x in c if x >= 0))


class Violation(dict):
    """{check, kind, op, step, detail} - check/kind/op form the violation class used by the
    shrinker; step is the id of the failing step."""


def vio(check, kind, op, step, detail):
    return {"check": check, "kind": kind, "op": op, "step": step, "detail": detail}


class Machine(object):
    prop = None
    title = ""
    # runs per tier: (quick, thorough)
    runs = (1000, 20000)
    batch = 1              # plans executed per child (only C08 batches)

    def gen(self, rng, idx, seed):
        raise NotImplementedError

    def check(self, plan, hist, oracle):
        """-> (violations, probes dict, abstract trace (str), nontrivial bool, extra dict)"""
        raise NotImplementedError

    def executor(self):
        return None        # default: crysim.world.exec_plan

    def simplifications(self, plan):
        """Yield candidate simpler plans (argument level); structure is handled generically."""
        return iter(())

    components = {"real": [], "stub": []}
    rule = ""
