"""C13 (setkey clause) - setting a new key replaces the old one completely.

One client issues setkey(K)/mac(M) operations on one HMAC object with key lengths of every class
in every order; a second client uses the SAME hash object h directly (one-shot and update)
between the MAC calls.  Oracle: pristine HMAC(fresh h, K_current)(M).
"""
from ..base import B
from ..plan import PlanBuilder
from .common import Machine, rbytes, vio

HASHES = [
    ("MD4", {"kind": "MD4"}, 64, 16), ("MD5", {"kind": "MD5"}, 64, 16),
    ("SHA1", {"kind": "SHA1"}, 64, 20), ("SHA0", {"kind": "SHA1", "version": 0}, 64, 20),
    ("SHA224", {"kind": "SHA2", "size": 224}, 64, 28), ("SHA256", {"kind": "SHA2", "size": 256}, 64, 32),
    ("SHA384", {"kind": "SHA2", "size": 384}, 128, 48), ("SHA512", {"kind": "SHA2", "size": 512}, 128, 64),
    ("SHA512_224", {"kind": "SHA2", "size": 512, "t": 224}, 128, 28),
    ("SHA512_256", {"kind": "SHA2", "size": 512, "t": 256}, 128, 32),
    ("Blake224", {"kind": "Blake", "size": 224}, 64, 28), ("Blake256", {"kind": "Blake", "size": 256}, 64, 32),
    ("Blake384", {"kind": "Blake", "size": 384}, 128, 48), ("Blake512", {"kind": "Blake", "size": 512}, 128, 64),
]
KCLASSES = ["0", "1", "d-1", "d", "d+1", "b-1", "b", "b+1", "2b", "3b"]


def klen(cls, bb, d):
    return {"0": 0, "1": 1, "d-1": d - 1, "d": d, "d+1": d + 1, "b-1": bb - 1, "b": bb, "b+1": bb + 1, "2b": 2 * bb, "3b": 3 * bb}[cls]


_PAIRS = [(h, a, b) for h in range(len(HASHES)) for a in KCLASSES for b in KCLASSES]


class C13(Machine):
    prop = "C13"
    title = "HMAC setkey replaces the key completely"
    runs = (1500, 60000)
    components = {"real": ["crysp.hmac HMAC", "crysp.md MD4/MD5", "crysp.sha SHA1/SHA2", "crysp.blake Blake", "crysp.padding", "crysp.bits"],
                  "stub": []}
    rule = ("one evaluation = one simulated run: one client issues 2-6 setkey(K)/mac(M) operations on one HMAC object (key "
            "lengths from the classes 0,1,d-1,d,d+1,b-1,b,b+1,3b in every order; equal-length/different-bytes pairs), a second "
            "client calls the shared hash object directly (one-shot, update, initstate) in between; every mac result is compared "
            "with a pristine HMAC(fresh h, current key)(M). distinct = distinct abstract traces (hash, sequence of key-length "
            "classes and mac/noise ops in schedule order); non-trivial = a judged mac after at least one setkey that replaced an "
            "earlier key")
    assumptions = ["the only fault kind is bad_call: a setkey the library refuses (wrong type) - the key set last stays in force; "
                   "if the library accepts such a request the object is no longer judged; no interrupt or failing collaborator "
                   "is injected into setkey (nothing is promised after a setkey that was cut short)"]

    def gen(self, rng, idx, seed):
        pb = PlanBuilder(self.prop, seed, idx)
        if idx % 2 == 0:
            hi, ka, kb = _PAIRS[(idx // 2) % len(_PAIRS)]
            forced = [ka, kb]
        else:
            hi = rng.randrange(len(HASHES))
            forced = []
        name, rec, bb, d = HASHES[hi]
        h = pb.obj(dict(rec))
        k0cls = forced.pop(0) if forced else rng.choice(KCLASSES)
        k0 = rbytes(rng, klen(k0cls, bb, d))
        mac = pb.obj({"kind": "HMAC", "h": {"obj": h}, "key": B(k0)})
        c0 = pb.client()
        msgs = [rbytes(rng, n) for n in (rng.choice([0, 1, 20]), rng.choice([bb - 1, bb, bb + 9]), rng.choice([3, 2 * bb]))]
        pb.step(c0, k="call", obj=mac, name="__call__", args=[B(rng.choice(msgs))], kw={}, tag="mac", kcls=k0cls, role="mac")
        nset = rng.choice([1, 1, 2, 3, 3, 5])
        last = k0
        keys_seen = [k0]
        # one run in seven: the caller keeps its key in ONE bytearray that it overwrites before each setkey
        keybuf = pb.obj({"kind": "value", "val": {"ba": ""}}) if rng.random() < 0.15 else None
        if keybuf is not None:
            pb.plan["meta"]["keybuf"] = keybuf
        for i in range(nset):
            cls = forced.pop(0) if forced else rng.choice(KCLASSES)
            n = klen(cls, bb, d)
            v = rng.random()
            if v < 0.25 and len(last) == n and n > 0:
                k = bytes([last[0] ^ 0x80]) + last[1:]            # same length, different bytes
            elif v < 0.45 and n > 0:
                k = (last + bytes(n))[:n]                        # old key truncated / zero-extended
            elif v < 0.55:
                k = last                                         # the same key again
            elif v < 0.65 and keys_seen:
                k = rng.choice(keys_seen)                        # an earlier key comes back
            else:
                k = rbytes(rng, n)
            if keybuf is not None:
                pb.step(c0, k="mutate", obj=keybuf, val=B(k), tag="keybuf", role="mut")
                pb.step(c0, k="call", obj=mac, name="setkey", args=[{"obj": keybuf}], kw={}, tag="setkey:" + cls, kcls=cls,
                        role="setkey", key_hex=k.hex())
                if rng.random() < 0.6:
                    # ... and wipes or re-uses the buffer once the key has been handed over
                    scr = bytes(len(k)) if rng.random() < 0.5 else rbytes(rng, rng.choice([len(k), len(k), bb, 3]))
                    pb.step(c0, k="mutate", obj=keybuf, val=B(scr), tag="keybuf_wiped", role="mut")
            else:
                pb.step(c0, k="call", obj=mac, name="setkey", args=[B(k)], kw={}, tag="setkey:" + cls, kcls=cls, role="setkey")
            last = k
            keys_seen.append(k)
            if rng.random() < 0.25:
                # fault kind bad_call: a re-keying request the library refuses (wrong type). A call that ended in
                # an error changes nothing (C10's clause, checked here because this machine owns the key histories):
                # the key set last stays in force
                badk = rng.choice([{"s": "k" * rng.choice([3, bb, bb + 5])}, None, 12345, {"t": [1, 2, 3]}])
                pb.step(c0, k="call", obj=mac, name="setkey", args=[badk], kw={}, tag="setkey_refused", role="bad_setkey", cls="bad")
            for _ in range(rng.choice([1, 1, 2])):
                pb.step(c0, k="call", obj=mac, name="__call__", args=[B(rng.choice(msgs))], kw={}, tag="mac", role="mac")
        macs = [mac]
        if rng.random() < 0.35:
            # a second HMAC object over the SAME hash object, re-keyed and used concurrently
            h2 = h if rng.random() < 0.5 else pb.obj(dict(rec))      # same hash object, or another instance of its class
            mac2 = pb.obj({"kind": "HMAC", "h": {"obj": h2}, "key": B(rbytes(rng, klen(rng.choice(KCLASSES), bb, d)))})
            pb.plan["meta"].setdefault("hof", {})[str(mac2)] = h2
            macs.append(mac2)
            c2 = pb.client()
            for _ in range(rng.randint(1, 3)):
                if rng.random() < 0.4:
                    cls = rng.choice(KCLASSES)
                    pb.step(c2, k="call", obj=mac2, name="setkey", args=[B(rbytes(rng, klen(cls, bb, d)))], kw={}, tag="setkey2:" + cls, kcls=cls, role="setkey")
                pb.step(c2, k="call", obj=mac2, name="__call__", args=[B(rng.choice(msgs))], kw={}, tag="mac2", role="mac")
        if rng.random() < 0.6:
            c1 = pb.client()
            for _ in range(rng.randint(1, 3)):
                r = rng.random()
                if r < 0.4:
                    pb.step(c1, k="call", obj=h, name="__call__", args=[B(rng.choice(msgs))], kw={}, tag="h_call", role="noise")
                elif r < 0.8:
                    pb.step(c1, k="call", obj=h, name="update", args=[B(rbytes(rng, bb * rng.randint(0, 2)))], kw={}, tag="h_update", role="noise")
                else:
                    pb.step(c1, k="call", obj=h, name="initstate", args=[], kw={}, tag="h_init", role="noise")
        plan = pb.finish(rng)
        plan["meta"].update({"hash": name, "mac": mac, "macs": macs, "h": h, "k0": k0.hex()})
        plan["fp"] = [mac]
        return plan

    def check(self, plan, hist, oracle):
        by_id = {e["id"]: e for e in hist}
        meta = plan["meta"]
        mac, h = meta["mac"], meta["h"]
        name = meta["hash"]
        macs = meta.get("macs", [mac])
        curk = {m: plan["objects"][m]["key"] for m in macs}
        repl = {m: 0 for m in macs}
        vs = []
        probes = {}
        nontrivial = False
        replaced = 0
        prev_cls = None
        noise_since = False
        nbad = [0, 0]
        trace = [name]
        for s in plan["steps"]:
            e = by_id[s["id"]]
            trace.append(s.get("tag", "?"))
            if s.get("role") == "noise":
                noise_since = True
                continue
            if s.get("obj") not in curk:
                continue
            mo = s["obj"]
            cur = curk[mo]
            replaced = repl[mo]
            if s.get("role") == "bad_setkey":
                nbad[0] += 1
                if e["out"][0] == "exc":
                    nbad[1] += 1
                    probes["setkey_refused_then_mac"] = probes.get("setkey_refused_then_mac", 0) + 1
                    continue
                # the library accepted it: what key is in force now is not for this check to say
                probes["odd_setkey_accepted"] = probes.get("odd_setkey_accepted", 0) + 1
                curk.pop(mo, None)
                continue
            if s["name"] == "setkey":
                if e["out"][0] != "ok":
                    vs.append(vio("setkey_failed", name, s["tag"], s["id"], {"got": e["out"]}))
                    break
                if "key_hex" in s:
                    # key came through the caller's reusable buffer: it must have been refilled just before
                    kb = plan["meta"].get("keybuf")
                    prevm = [q for q in plan["steps"][:plan["steps"].index(s)] if q.get("obj") == kb and q.get("k") == "mutate"]
                    if not prevm or prevm[-1]["val"]["b"] != s["key_hex"]:
                        break
                    curk[mo] = {"b": s["key_hex"]}
                    probes["setkey_through_reused_bytearray"] = probes.get("setkey_through_reused_bytearray", 0) + 1
                    nxt = plan["steps"][plan["steps"].index(s) + 1:]
                    if nxt and nxt[0].get("tag") == "keybuf_wiped":
                        probes["callers_key_buffer_wiped_after_setkey"] = probes.get("callers_key_buffer_wiped_after_setkey", 0) + 1
                else:
                    curk[mo] = s["args"][0]
                repl[mo] += 1
                replaced = repl[mo]
                if prev_cls is not None:
                    probes["keyclass_pair_2|%s|%s|%s" % (name, prev_cls, s.get("kcls"))] = 1
                prev_cls = s.get("kcls")
            elif s["name"] == "__call__":
                if prev_cls is None:
                    prev_cls = s.get("kcls")
                hh = meta.get("hof", {}).get(str(mo), h)
                mini = {"objects": [plan["objects"][hh], {"kind": "HMAC", "h": {"obj": 0}, "key": cur}],
                        "steps": [{"id": 1, "k": "call", "obj": 1, "name": "__call__", "args": s["args"], "kw": {}}],
                        "observe": [], "fp": []}
                exp = oracle.ask(mini)[0]["out"]
                if exp[0] == "ok" and e["out"] != exp:
                    vs.append(vio("mac_after_setkey" if replaced else "mac_first_key", name, "mac", s["id"],
                                  {"got": e["out"], "fresh": exp, "keylen": len(cur["b"]) // 2, "setkeys_before": replaced}))
                probes["judged_macs"] = probes.get("judged_macs", 0) + 1
                if len(macs) > 1:
                    probes["two_hmac_objects_share_one_hash"] = probes.get("two_hmac_objects_share_one_hash", 0) + 1
                if replaced:
                    nontrivial = True
                    probes["mac_after_setkey"] = probes.get("mac_after_setkey", 0) + 1
                if noise_since:
                    probes["shared_h_used_in_between"] = probes.get("shared_h_used_in_between", 0) + 1
                    noise_since = False
        extra = {"faults": {"bad_call": nbad} if nbad[0] else {}, "fps": sorted(set(f for e in hist for f in e.get("fp", []))),
                 "ngrams": sorted(k[len("keyclass_pair_"):] for k in probes if k.startswith("keyclass_pair_"))}
        probes = {k: v for k, v in probes.items() if not k.startswith("keyclass_pair_")}
        return vs, probes, "|".join(trace), nontrivial, extra

    def totals(self):
        return {"bigrams_total": len(KCLASSES) ** 2 * len(HASHES), "bigram_meaning": "(hash, key-length class before, key-length class after) of a setkey"}
