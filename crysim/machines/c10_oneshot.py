"""C10 - one-shot results depend only on the arguments, never on earlier calls.

Workload: 1-3 cooperative clients working real crysp objects (private, sibling and shared /
module-level singleton instances); every *checked* one-shot call that was not itself faulted is
compared with the same call on a freshly built, equally configured object in a pristine process.
Faults: bad_call, collab_fail, interrupt, abandon (DESIGN.md 2.4).
"""
from ..base import B
from ..plan import PlanBuilder, obj_closure, oracle_plan_for_call
from .common import Machine, hash_len_classes, msg_of_len, rbytes, vio

CHK = "chk"     # op class: judged against the fresh twin
HIST = "hist"   # op class: executed and recorded, never judged
BAD = "bad"     # op class: a call the library itself rejects (fault kind bad_call)
ABN = "abn"     # op class: generator started and abandoned part-way (fault kind abandon)
RCF = "rcf"     # op class: a valid reconfiguration call (setrate / counter.setup / setkey): never judged and
                # never faulted; from then on the fresh twin is built with the new configuration


class Ctx(object):
    def __init__(self, rng, pb, kind, obj, info):
        self.rng = rng
        self.pb = pb
        self.kind = kind
        self.obj = obj
        self.info = info
        self.pool = info["pool"]
        self.encs = info.setdefault("encs", [])   # results of earlier enc calls (shared with twin/cousin objects)
        self.aux = info.get("aux", {})
        self.open_gens = info.setdefault("open_gens", [])   # generators started and left suspended

    def msg(self):
        return self.pool[self.rng.randrange(len(self.pool))]

    def opt(self, key, gen, p_new=0.45):
        """Per-run pool of option values (salts, nonces, rates, output lengths, bit lengths per
        message ...): values are re-used across calls and across twin/cousin siblings, so that
        'the same option again' and 'the same option on another object' both happen often."""
        pools = self.info.setdefault("optpool", {})
        k = str(key)
        pl = pools.setdefault(k, [])
        if not pl or (len(pl) < 3 and self.rng.random() < p_new):
            pl.append(gen())
            return pl[-1]
        return pl[self.rng.randrange(len(pl))]

    def call(self, c, name, args=(), kw=None, cls=CHK, tag=None, obj=None, **extra):
        f = dict(k="call", obj=self.obj if obj is None else obj, name=name, args=list(args),
                 kw=kw or {}, cls=cls, tag=tag or name, kind=self.kind)
        f.update(extra)
        return self.pb.step(c, **f)


# ---------------------------------------------------------------------------------------------
# message pools: same-length/different-content pairs + other lengths
def make_pool(rng, lens):
    l1 = lens[rng.randrange(len(lens))]
    l2 = lens[rng.randrange(len(lens))]
    a = msg_of_len(rng, l1, 0)
    b = msg_of_len(rng, l1, 0)
    if l1 > 0 and a == b:
        b = bytes([a[0] ^ 1]) + a[1:]
    c = msg_of_len(rng, l2)
    d = msg_of_len(rng, lens[rng.randrange(len(lens))])
    # related messages: sometimes one message is a prefix / an extension of another (to a length
    # of the same class list), which is what resumable or prefix-keyed caches need to go wrong
    v = rng.random()
    if v < 0.3 and l2 > l1:
        c = a + c[l1:]
    elif v < 0.45 and len(d) < l1:
        d = a[:len(d)]
    return [a, b, c, d]


# ---------------------------------------------------------------------------------------------
# per-kind op tables.  Each op: fn(ctx, client) -> None (adds steps)
def _bitlen_for(rng, m):
    n = 8 * len(m)
    if n <= 1:
        return n or None
    r = rng.random()
    if r < 0.5:
        return n - rng.randint(1, min(7, n - 1))
    if r < 0.6:
        return n
    return rng.randint(1, n)


def _aligned(rng, bb, nblocks=None):
    n = rng.choice([0, 1, 1, 2]) if nblocks is None else nblocks
    return rbytes(rng, n * bb)


def _unaligned(rng, bb):
    if bb < 2:
        return rbytes(rng, 1)
    return rbytes(rng, bb * rng.randint(0, 1) + rng.randint(1, bb - 1))


def hash_ops(has_bitlen=True, has_salt=False, update=True):
    ops = {}

    def call(x, c):
        x.call(c, "__call__", [B(x.msg())], tag="call")
    ops["call"] = (CHK, call)
    if has_bitlen:
        def call_bitlen(x, c):
            m = x.msg()
            if len(m) == 0:
                m = b"\xa5"
            x.call(c, "__call__", [B(m)], {"bitlen": x.opt(("bl", m.hex()), lambda: _bitlen_for(x.rng, m))}, tag="call_bitlen")
        ops["call_bitlen"] = (CHK, call_bitlen)
    if has_salt:
        def call_salt(x, c):
            x.call(c, "__call__", [B(x.msg())], {"s": x.opt("s", lambda: x.rng.getrandbits(4 * x.info["w"] * 8))},
                   tag="call_salt")
        ops["call_salt"] = (CHK, call_salt)
    if update:
        def update_np(x, c):
            x.call(c, "update", [B(_aligned(x.rng, x.info["bb"]))], cls=HIST, tag="update_np")
        ops["update_np"] = (HIST, update_np)

        def update_fin(x, c):
            x.call(c, "update", [B(x.msg())], {"padding": True}, cls=HIST, tag="update_fin")
        ops["update_fin"] = (HIST, update_fin)

        def initstate(x, c):
            x.call(c, "initstate", cls=HIST)
        ops["initstate"] = (HIST, initstate)
        if has_bitlen:
            def update_fin_bitlen(x, c):
                m = x.msg() or b"\x81"
                x.call(c, "update", [B(m)], {"padding": True, "bitlen": _bitlen_for(x.rng, m)}, cls=HIST, tag="update_fin_bitlen")
            ops["update_fin_bitlen"] = (HIST, update_fin_bitlen)

        def pad_poke(x, c):
            # the padding object is a public attribute: a user may drive or reset it directly
            if x.rng.random() < 0.5:
                x.call(c, "padmethod.reset", cls=HIST, tag="pad_poke")
            else:
                g = x.call(c, "padmethod.iterblocks", [B(x.msg())], cls=HIST, tag="pad_poke")
                x.pb.step(c, k="drain", gen=g, max=8, cls=HIST, tag="drain", kind=x.kind, obj=x.obj)
        ops["pad_poke"] = (HIST, pad_poke)

        def iter_part(x, c):
            m = rbytes(x.rng, x.info["bb"] * 2 + 3)
            g = x.call(c, "iterblocks", [B(m)], {"padding": True}, cls=ABN, tag="iter_part")
            x.pb.step(c, k="pull", gen=g, n=x.rng.randint(1, 2), cls=ABN, tag="pull", kind=x.kind,
                      obj=x.obj)
            if x.rng.random() < 0.5:
                x.pb.step(c, k="close", gen=g, cls=ABN, tag="close", kind=x.kind, obj=x.obj)
            else:
                x.open_gens.append(g)
        ops["iter_part"] = (ABN, iter_part)

        def bad_update(x, c):
            x.call(c, "update", [B(_unaligned(x.rng, x.info["bb"]))], cls=BAD, tag="bad_update")
        ops["bad_update"] = (BAD, bad_update)
    if has_bitlen:
        def bad_bitlen(x, c):
            m = x.msg()
            x.call(c, "__call__", [B(m)], {"bitlen": 8 * len(m) + x.rng.randint(1, 9)}, cls=BAD,
                   tag="bad_bitlen")
        ops["bad_bitlen"] = (BAD, bad_bitlen)

    def bad_type(x, c):
        x.call(c, "__call__", [x.rng.choice([12345, {"s": "text"}, None])], cls=BAD, tag="bad_type")
    ops["bad_type"] = (BAD, bad_type)
    return ops


def _md6_ops():
    ops = hash_ops(update=False)

    def internals(x, c):
        if x.rng.random() < 0.5:
            x.call(c, "SEQ", [B(x.msg())], cls=HIST, tag="internals")
        else:
            x.call(c, "PAR", [1, B(x.msg())], cls=HIST, tag="internals")
    ops["internals"] = (HIST, internals)
    return ops


def blake2_ops():
    ops = hash_ops(has_bitlen=False)
    ops.pop("initstate")
    ops.pop("iter_part")

    def initstate(x, c):
        x.call(c, "initstate", cls=HIST)
    ops["initstate"] = (HIST, initstate)

    def call_outlen(x, c):
        x.call(c, "__call__", [B(x.msg())], {"outlen": x.opt("outlen", lambda: x.rng.randint(1, x.info["w"] * 8 - 1))},
               tag="call_outlen")
    ops["call_outlen"] = (CHK, call_outlen)

    def call_salt(x, c):
        l = x.info["w"] * 2
        kw = {}
        if x.rng.random() < 0.7:
            kw["salt"] = x.opt("salt", lambda: B(rbytes(x.rng, l)))
        if x.rng.random() < 0.5 or not kw:
            kw["pers"] = x.opt("pers", lambda: B(rbytes(x.rng, l)))
        x.call(c, "__call__", [B(x.msg())], kw, tag="call_salt")
    ops["call_salt"] = (CHK, call_salt)

    def call_keylen(x, c):
        x.call(c, "__call__", [B(x.msg())], {"keylen": x.opt("keylen", lambda: x.rng.randint(1, x.info["w"] * 8))},
               tag="call_keylen")
    ops["call_keylen"] = (CHK, call_keylen)

    def call_tree(x, c):
        kw = {"fanout": x.rng.randint(0, 4), "depth": x.rng.randint(1, 4)}
        if x.rng.random() < 0.5:
            kw["leafl"] = x.rng.getrandbits(16)
        if x.rng.random() < 0.5:
            kw["noffset"] = x.rng.getrandbits(8)
        if x.rng.random() < 0.5:
            kw["ndepth"] = x.rng.randint(0, 3)
            kw["inner"] = x.rng.randint(0, 32)
        x.call(c, "__call__", [B(x.msg())], kw, tag="call_tree")
    ops["call_tree"] = (CHK, call_tree)

    def bad_outlen(x, c):
        x.call(c, "__call__", [B(x.msg())], {"outlen": x.rng.choice([99, 0, 65, 200])}, cls=BAD,
               tag="bad_outlen")
    ops["bad_outlen"] = (BAD, bad_outlen)

    def internals(x, c):
        if x.rng.random() < 0.5:
            x.call(c, "treeinit", [], {"fanout": x.rng.randint(0, 3), "depth": x.rng.randint(1, 3)}, cls=HIST, tag="internals")
        else:
            l = x.info["w"] * 2
            x.call(c, "paramblock", [B(rbytes(x.rng, l)), B(rbytes(x.rng, l))], cls=HIST, tag="internals")
    ops["internals"] = (HIST, internals)

    def bad_salt(x, c):
        kw = {x.rng.choice(["salt", "pers"]): B(rbytes(x.rng, x.rng.choice([1, 3, x.info["w"] * 2 + 1, 40])))}
        if x.rng.random() < 0.3:
            kw = {"keylen": x.rng.choice([65, 200, 1000])}
        x.call(c, "__call__", [B(x.msg())], kw, cls=BAD, tag="bad_salt")
    ops["bad_salt"] = (BAD, bad_salt)
    return ops


def _affordable_rates(x, cands):
    """keep the rates under which the longest message of the run's pool needs at most 48 permutations
    (a 275-byte message under an 8-bit rate is 275 pure-Python Keccak-f calls per call and per oracle query)"""
    longest = 8 * max([len(m) for m in x.pool] + [1])
    ok = [r for r in cands if longest <= 48 * r]
    return ok or cands[-1:]


def keccak_ops(sha3=False):
    ops = {}

    def shake(x, c):
        # the module-level SHAKE128/SHAKE256 functions (checked: they are one-shot hashes too)
        if "shake" not in x.info:
            x.info["shake"] = [x.pb.obj({"kind": "attr", "path": "crysp.sha.SHAKE128"}),
                               x.pb.obj({"kind": "attr", "path": "crysp.sha.SHAKE256"})]
        f = x.rng.choice(x.info["shake"])
        d = x.opt("shake_d", lambda: x.rng.choice([8, 64, 224, 256, 256, 384, 512, 1088 + 64]))
        x.call(c, "__call__", [B(x.msg()), d], tag="shake", obj=f)
    ops["shake"] = (CHK, shake)

    def call(x, c):
        x.call(c, "__call__", [B(x.msg())], tag="call")
    ops["call"] = (CHK, call)

    def duplex(x, c):
        r = x.info["r"]
        n = x.rng.randint(0, max(0, (r - 2) // 8))
        kw = {}
        if n and x.rng.random() < 0.4:
            kw["bitlen"] = x.rng.randint(1, min(8 * n, r - 2))
        if x.rng.random() < 0.3:
            kw["outlen"] = x.rng.randint(1, r)
        if sha3 and x.rng.random() < 0.3:
            # the inherited setrate() called with the rate the object already has: no change of configuration
            x.call(c, "setrate", [r], cls=HIST, tag="setrate_same")
        x.call(c, "duplex", [B(rbytes(x.rng, n))], kw, cls=HIST, tag="duplex")
    ops["duplex"] = (HIST, duplex)
    if sha3:
        return ops

    def call_bitlen(x, c):
        m = x.msg() or b"\x5a"
        x.call(c, "__call__", [B(m)], {"bitlen": x.opt(("bl", m.hex()), lambda: _bitlen_for(x.rng, m))}, tag="call_bitlen")
    ops["call_bitlen"] = (CHK, call_bitlen)

    def call_r(x, c):
        b = x.info["b"]
        cands = [r for r in (8, 40, 72, 136, 144, 256, 576, 832, 1024, 1088, 1152, 1344, 1336)
                 if r < b and r != x.info["r"]]
        cands = _affordable_rates(x, cands)
        kw = {"r": x.opt("r", lambda: x.rng.choice(cands))}
        m = x.msg()
        if m and x.rng.random() < 0.3:
            kw["bitlen"] = _bitlen_for(x.rng, m)
        x.call(c, "__call__", [B(m)], kw, tag="call_r")
    ops["call_r"] = (CHK, call_r)

    def iter_part(x, c):
        m = rbytes(x.rng, (x.info["r"] // 8) * 2 + 3)
        g = x.call(c, "iterblocks", [B(m)], cls=ABN, tag="iter_part")
        x.pb.step(c, k="pull", gen=g, n=1, cls=ABN, tag="pull", kind=x.kind, obj=x.obj)
        x.open_gens.append(g)
    ops["iter_part"] = (ABN, iter_part)

    def setrate(x, c):
        # a valid reconfiguration: from here on the object is "equally configured" to Keccak(b, c=b-r, len)
        b = x.info["b"]
        cands = _affordable_rates(x, [r for r in (8, 40, 72, 136, 144, 256, 576, 832, 1024, 1088, 1152, 1344, 1336) if r < b])
        r = x.opt("r", lambda: x.rng.choice(cands))
        rec = x.pb.plan["objects"][x.obj]
        ln = rec["len"] if rec.get("kind") == "Keccak" else int(rec["path"].rsplit("_", 1)[1])
        x.call(c, "setrate", [r], cls=RCF, tag="setrate",
               reconf={"recipe": {"kind": "Keccak", "b": b, "c": b - r, "len": ln}})
        x.info["r"] = r
        x.info["bb"] = max(1, r // 8)
    ops["setrate"] = (RCF, setrate)

    def bad_bitlen(x, c):
        m = x.msg()
        x.call(c, "__call__", [B(m)], {"bitlen": 8 * len(m) + x.rng.randint(1, 9)}, cls=BAD,
               tag="bad_bitlen")
    ops["bad_bitlen"] = (BAD, bad_bitlen)

    def bad_r(x, c):
        x.call(c, "__call__", [B(x.msg())], {"r": x.rng.choice([1537, 2000, 1600])}, cls=BAD,
               tag="bad_r")
    ops["bad_r"] = (BAD, bad_r)

    def bad_type(x, c):
        x.call(c, "__call__", [x.rng.choice([12345, None, {"s": "text"}])], cls=BAD, tag="bad_type")
    ops["bad_type"] = (BAD, bad_type)

    def bad_duplex(x, c):
        x.call(c, "duplex", [B(rbytes(x.rng, x.info["r"] // 8 + 1 + x.rng.randint(0, 9)))], cls=BAD,
               tag="bad_duplex")
    ops["bad_duplex"] = (BAD, bad_duplex)
    return ops


def skein_ops():
    ops = {}

    def call(x, c):
        x.call(c, "__call__", [B(x.msg())], tag="call")
    ops["call"] = (CHK, call)

    def call_bitlen(x, c):
        m = x.msg() or b"\xc3"
        x.call(c, "__call__", [B(m)], {"bitlen": x.opt(("bl", m.hex()), lambda: _bitlen_for(x.rng, m))}, tag="call_bitlen")
    if True:
        ops["call_bitlen"] = (CHK, call_bitlen)

    def update(x, c):
        x.call(c, "update", [B(x.msg())], cls=HIST, tag="update")
    ops["update"] = (HIST, update)

    def initstate(x, c):
        x.call(c, "_initstate", cls=HIST, tag="initstate")
    ops["initstate"] = (HIST, initstate)

    def output(x, c):
        x.call(c, "output", [B(rbytes(x.rng, x.info["nb"]))], cls=HIST, tag="output")
    ops["output"] = (HIST, output)

    def bad_type(x, c):
        x.call(c, "__call__", [x.rng.choice([12345, None])], cls=BAD, tag="bad_type")
    ops["bad_type"] = (BAD, bad_type)

    def bad_update(x, c):
        if x.rng.random() < 0.5:
            x.call(c, "update", [B(x.msg()), {"s": "nosuchtype"}], cls=BAD, tag="bad_update")
        else:
            x.call(c, "output", [B(rbytes(x.rng, x.rng.choice([0, 1, x.info["nb"] - 1])))], cls=BAD, tag="bad_update")
    ops["bad_update"] = (BAD, bad_update)
    return ops


def ubi_ops():
    ops = {}

    def call(x, c):
        x.call(c, "__call__", [B(x.msg())], tag="call")
    ops["call"] = (CHK, call)

    def call_bitlen(x, c):
        m = x.msg() or b"\xc3"
        x.call(c, "__call__", [B(m)], {"bitlen": x.opt(("bl", m.hex()), lambda: _bitlen_for(x.rng, m))}, tag="call_bitlen")
    ops["call_bitlen"] = (CHK, call_bitlen)

    def iter_part(x, c):
        m = rbytes(x.rng, x.info["nb"] * 2 + 3)
        g = x.call(c, "iterblocks", [B(m)], cls=ABN, tag="iter_part")
        x.pb.step(c, k="pull", gen=g, n=1, cls=ABN, tag="pull", kind=x.kind, obj=x.obj)
        x.open_gens.append(g)
    ops["iter_part"] = (ABN, iter_part)

    def bad_type(x, c):
        x.call(c, "__call__", [12345], cls=BAD, tag="bad_type")
    ops["bad_type"] = (BAD, bad_type)
    return ops


def hmac_ops():
    ops = {}

    def call(x, c):
        x.call(c, "__call__", [B(x.msg())], tag="call")
    ops["call"] = (CHK, call)

    def h_call(x, c):
        x.call(c, "__call__", [B(x.msg())], cls=HIST, tag="h_call", obj=x.aux["h"])
    ops["h_call"] = (HIST, h_call)

    def h_update(x, c):
        x.call(c, "update", [B(_aligned(x.rng, x.info["bb"], 1))], cls=HIST, tag="h_update",
               obj=x.aux["h"])
    ops["h_update"] = (HIST, h_update)

    def setkey(x, c):
        bb = x.info["bb"]
        k = x.opt("key", lambda: rbytes(x.rng, x.rng.choice([1, 16, bb - 1, bb, bb, bb + 1, 2 * bb])))
        lit = {"ba": k.hex()} if x.rng.random() < 0.2 else B(k)
        x.call(c, "setkey", [lit], cls=RCF, tag="setkey", reconf={"set": {"key": B(k)}})
    ops["setkey"] = (RCF, setkey)

    def key_wipe(x, c):
        # the caller wipes / re-uses the bytearray it handed over as the key at construction
        kb = x.info.get("keybuf")
        if kb is None:
            return call(x, c)
        n = x.info["keylen"]
        scr = bytes(n) if x.rng.random() < 0.5 else rbytes(x.rng, x.rng.choice([n, n, 3]))
        x.pb.step(c, k="mutate", obj=kb, val=B(scr), cls=HIST, tag="key_wipe", kind=x.kind)
    ops["key_wipe"] = (HIST, key_wipe)

    def bad_type(x, c):
        x.call(c, "__call__", [12345], cls=BAD, tag="bad_type")
    ops["bad_type"] = (BAD, bad_type)
    return ops


def tlsh_ops():
    ops = {}

    def data(x, n=None):
        n = n or x.rng.choice([256, 257, 300, 320])
        return rbytes(x.rng, n)

    def call(x, c):
        x.encs.append(x.call(c, "__call__", [B(x.msg())], tag="call"))
    ops["call"] = (CHK, call)

    def call_force(x, c):
        m = x.msg()
        if x.rng.random() < 0.5:
            m = m[:x.rng.randint(60, 200)]
        x.encs.append(x.call(c, "__call__", [B(m)], {"force": True}, tag="call_force"))
    ops["call_force"] = (CHK, call_force)

    def update(x, c):
        x.call(c, "update", [B(data(x, x.rng.choice([20, 64, 300])))], cls=HIST, tag="update")
    ops["update"] = (HIST, update)

    def final(x, c):
        x.call(c, "final", [B(x.msg())], {"force": x.rng.random() < 0.5}, cls=HIST, tag="final")
    ops["final"] = (HIST, final)

    def reset(x, c):
        x.call(c, "reset", cls=HIST)
    ops["reset"] = (HIST, reset)

    def digest(x, c):
        x.call(c, "digest", cls=HIST)
    ops["digest"] = (HIST, digest)

    def from_hash(x, c):
        if x.encs:
            x.call(c, "from_hash", [{"ref": x.rng.choice(x.encs)}], cls=HIST, tag="from_hash")
        else:
            x.call(c, "reset", cls=HIST)
    ops["from_hash"] = (HIST, from_hash)

    def distance_to(x, c):
        if x.encs:
            x.call(c, "distance_to", [{"ref": x.rng.choice(x.encs)}], cls=HIST, tag="distance_to")
        else:
            x.call(c, "digest", cls=HIST, tag="distance_to")
    ops["distance_to"] = (HIST, distance_to)

    def call_short(x, c):
        x.call(c, "__call__", [B(rbytes(x.rng, x.rng.randint(0, 49)))], cls=BAD, tag="call_short")
    ops["call_short"] = (BAD, call_short)

    def bad_from_hash(x, c):
        # a digest of another configuration (other bucket count / checksum length), or garbage
        n = x.rng.choice([0, 3, 14, 15, 17, 34, 35, 37, 66, 67, 69, 100])
        x.call(c, "from_hash", [B(rbytes(x.rng, n))], cls=BAD, tag="bad_from_hash")
    ops["bad_from_hash"] = (BAD, bad_from_hash)

    def bad_type(x, c):
        x.call(c, "__call__", [x.rng.choice([12345, None])], cls=BAD, tag="bad_type")
    ops["bad_type"] = (BAD, bad_type)
    return ops


def nilsimsa_ops():
    ops = {}

    def call(x, c):
        x.call(c, "__call__", [B(x.msg())], tag="call")
    ops["call"] = (CHK, call)

    def update(x, c):
        x.call(c, "update", [B(x.msg())], cls=HIST, tag="update")
    ops["update"] = (HIST, update)

    def digest(x, c):
        x.call(c, "digest", cls=HIST)
    ops["digest"] = (HIST, digest)

    def reset(x, c):
        x.call(c, "reset", cls=HIST)
    ops["reset"] = (HIST, reset)

    def call_badlist(x, c):
        l = list(rbytes(x.rng, x.rng.randint(3, 12)))
        l.insert(x.rng.randint(1, len(l)), x.rng.choice([300, 256, 1000]))
        l += list(rbytes(x.rng, 3))
        x.call(c, "__call__", [{"badlist": l}], cls=BAD, tag="call_badlist")
    ops["call_badlist"] = (BAD, call_badlist)

    def bad_type(x, c):
        x.call(c, "__call__", [12345], cls=BAD, tag="bad_type")
    ops["bad_type"] = (BAD, bad_type)

    def update_badlist(x, c):
        l = list(rbytes(x.rng, x.rng.randint(4, 9))) + [x.rng.choice([256, 999])] + list(rbytes(x.rng, 2))
        x.call(c, "update", [{"badlist": l}], cls=BAD, tag="update_badlist")
    ops["update_badlist"] = (BAD, update_badlist)
    return ops


def cipher_ops(aes=False):
    ops = {}

    def enc(x, c):
        x.encs.append(x.call(c, "enc", [B(x.msg())]))
    ops["enc"] = (CHK, enc)

    def dec(x, c):
        x.call(c, "dec", [B(x.msg())])
    ops["dec"] = (CHK, dec)

    def dec_ref(x, c):
        if x.encs:
            x.call(c, "dec", [{"ref": x.rng.choice(x.encs)}], tag="dec_ref")
        else:
            x.call(c, "dec", [B(x.msg())], tag="dec_ref")
    ops["dec_ref"] = (CHK, dec_ref)
    if aes:
        def keyschedule(x, c):
            x.call(c, "keyschedule", cls=HIST)
        ops["keyschedule"] = (HIST, keyschedule)

    def bad_block(x, c):
        n = x.info["bb"]
        m = rbytes(x.rng, x.rng.choice([n - 1, n + 1, 0, 2 * n]))
        x.call(c, x.rng.choice(["enc", "dec"]), [B(m)], cls=BAD, tag="bad_block")
    ops["bad_block"] = (BAD, bad_block)

    def bad_type(x, c):
        x.call(c, "enc", [x.rng.choice([None, 3.5])], cls=BAD, tag="bad_type")
    ops["bad_type"] = (BAD, bad_type)
    return ops


def mode_ops(ctr=False):
    ops = {}

    def mm(x):
        if x.info.get("aligned_only"):
            return _aligned(x.rng, x.info["bb"], x.rng.randint(0, 3))
        return x.msg()

    def enc(x, c):
        x.encs.append(x.call(c, "enc", [B(mm(x))]))
        if x.rng.random() < 0.3:
            x.encs.append(x.call(c, "enc", [B(mm(x))]))      # several messages encrypted in a row
    ops["enc"] = (CHK, enc)

    def dec_ref(x, c):
        if x.encs:
            # an OLDER ciphertext more often than the latest one (dec must not lean on the last enc)
            pick = x.rng.choice(x.encs[:-1]) if (len(x.encs) > 1 and x.rng.random() < 0.6) else x.rng.choice(x.encs)
            x.call(c, "dec", [{"ref": pick}], tag="dec_ref")
        else:
            x.call(c, "dec", [B(_aligned(x.rng, x.info["bb"], 2))], tag="dec_ref")
    ops["dec_ref"] = (CHK, dec_ref)

    def dec_lit(x, c):
        x.call(c, "dec", [B(_aligned(x.rng, x.info["bb"], x.rng.randint(1, 3)))], tag="dec_lit")
    ops["dec_lit"] = (CHK, dec_lit)

    def iter_part(x, c):
        m = rbytes(x.rng, x.info["bb"] * 3)
        g = x.call(c, "iterblocks", [B(m)], cls=ABN, tag="iter_part")
        x.pb.step(c, k="pull", gen=g, n=x.rng.randint(1, 2), cls=ABN, tag="pull", kind=x.kind,
                  obj=x.obj)
        x.open_gens.append(g)
    ops["iter_part"] = (ABN, iter_part)
    def pad_poke(x, c):
        # the mode's padding object is a public attribute
        if x.rng.random() < 0.4:
            x.call(c, "pad.reset", cls=HIST, tag="pad_poke")
        else:
            g = x.call(c, "pad.iterblocks", [B(mm(x))], cls=HIST, tag="pad_poke")
            x.pb.step(c, k="drain", gen=g, max=8, cls=HIST, tag="drain", kind=x.kind, obj=x.obj)
    ops["pad_poke"] = (HIST, pad_poke)
    if ctr:
        def counter_tick(x, c):
            for _ in range(x.rng.randint(1, 3)):
                x.call(c, "counter", cls=HIST, tag="counter_tick")
        ops["counter_tick"] = (HIST, counter_tick)

        def counter_setup(x, c):
            # a valid reconfiguration of the (default) counter: nonce and start value replaced
            h = x.info["bb"] // 2
            v = x.rng.random()
            nonce = x.opt("ctr_nonce", lambda: rbytes(x.rng, h))
            count = x.opt("ctr_count", lambda: x.rng.choice([bytes(h), b"\xff" * (h - 1) + b"\xfe", rbytes(x.rng, h)]))
            if v < 0.12:
                args, iv = [], bytes(2 * h)
            elif v < 0.25:
                args, iv = [B(nonce)], nonce + bytes(h)
            elif v < 0.8:
                args, iv = [B(nonce), B(count)], nonce + count
            else:
                # lengths other than half a block each: the fresh twin is configured through setup() too
                w = x.rng.choice([1, h - 1, h + 1, 2 * h]) or 1
                args = [B(nonce), B(rbytes(x.rng, w))] if x.rng.random() < 0.7 else [B(rbytes(x.rng, w)), B(count)]
                x.call(c, "counter.setup", args, cls=RCF, tag="counter_setup",
                       reconf={"via": "counter", "set": {"setup": args}, "else_set": {"counter_setup": args}})
                return
            x.call(c, "counter.setup", args, cls=RCF, tag="counter_setup",
                   reconf={"via": "counter", "set": {"iv": B(iv), "setup": None}, "else_set": {"counter": B(iv), "counter_setup": None}})
        ops["counter_setup"] = (RCF, counter_setup)
    if not ctr:
        def bad_dec(x, c):
            x.call(c, "dec", [B(_unaligned(x.rng, x.info["bb"]))], cls=BAD, tag="bad_dec")
        if True:
            ops["bad_dec"] = (BAD, bad_dec)

    def bad_type(x, c):
        x.call(c, "enc", [x.rng.choice([None, 12345])], cls=BAD, tag="bad_type")
    ops["bad_type"] = (BAD, bad_type)

    def bad_enc(x, c):
        # unaligned message under 'nopadding' (refused by the cipher on the short last block);
        # for padded modes a message holding a non-byte element
        if x.info.get("aligned_only") and x.info["bb"] > 1:
            x.call(c, "enc", [B(_unaligned(x.rng, x.info["bb"]))], cls=BAD, tag="bad_enc")
        else:
            x.call(c, "enc", [{"badlist": list(rbytes(x.rng, x.info["bb"] + 2)) + [300]}], cls=BAD, tag="bad_enc")
    ops["bad_enc"] = (BAD, bad_enc)
    return ops


def stream_ops():
    ops = {}

    def nonce(x):
        return x.opt("nonce", lambda: {"bits": [x.rng.getrandbits(64) if x.rng.random() < 0.8 else 0, 64]})

    def enc(x, c):
        v = nonce(x)
        x.encs.append((x.call(c, "enc", [v, B(x.msg())]), v))
    ops["enc"] = (CHK, enc)

    def dec_ref(x, c):
        if x.encs:
            sid, v = x.rng.choice(x.encs)
            x.call(c, "dec", [v, {"ref": sid}], tag="dec_ref")
        else:
            x.call(c, "dec", [nonce(x), B(x.msg())], tag="dec_ref")
    ops["dec_ref"] = (CHK, dec_ref)

    def hash_(x, c):
        x.call(c, "hash", [B(rbytes(x.rng, 64))], tag="hash")
    ops["hash"] = (CHK, hash_)

    def ks_part(x, c):
        g = x.call(c, "keystream", [nonce(x)], cls=ABN, tag="ks_part")
        x.pb.step(c, k="pull", gen=g, n=x.rng.randint(1, 2), cls=ABN, tag="pull", kind=x.kind,
                  obj=x.obj)
        if x.rng.random() < 0.3:
            x.pb.step(c, k="close", gen=g, cls=ABN, tag="close", kind=x.kind, obj=x.obj)
        else:
            x.open_gens.append(g)
    ops["ks_part"] = (ABN, ks_part)

    def bad_nonce(x, c):
        v = x.rng.random()
        if v < 0.5:
            x.call(c, "enc", [{"bits": [5, 32]}, B(x.msg())], cls=BAD, tag="bad_nonce")
        elif v < 0.8:
            x.call(c, "hash", [B(rbytes(x.rng, x.rng.choice([0, 16, 63, 65])))], cls=BAD, tag="bad_nonce")
        else:
            x.call(c, "enc", [{"bits": [x.rng.getrandbits(64), 64]}, 12345], cls=BAD, tag="bad_nonce")
    ops["bad_nonce"] = (BAD, bad_nonce)
    return ops


def crc_ops():
    ops = {}

    def mktable(x, c):
        # the public table builder called for some polynomial (its result is the caller's own table)
        if x.rng.random() < 0.3:
            poly = x.opt("poly", lambda: x.rng.choice([0x82F63B78, 0xEB31D82E, 0xEDB88320, x.rng.getrandbits(32)]))
            x.call(c, "__call__", [{"bits": [poly, 32]}], cls=HIST, tag="crc_table", obj=x.aux["mktable"])

    def crc32(x, c):
        mktable(x, c)
        x.call(c, "__call__", [B(x.msg())], tag="crc32")
    ops["crc32"] = (CHK, crc32)

    def crc(x, c):
        kw = {}
        if x.rng.random() < 0.7:
            kw["Xinit"] = x.opt("xinit", lambda: x.rng.choice([0xffffffff, 0xffffffff, 0xffffffff, 0, x.rng.getrandbits(32)]))
        if x.rng.random() < 0.6:
            kw["Xfinal"] = x.opt("xfinal", lambda: x.rng.choice([0xffffffff, x.rng.getrandbits(32), 1]))
        x.call(c, "__call__", [B(x.msg()), {"obj": x.aux["table"]}], kw, tag="crc", obj=x.aux["crc"])
    ops["crc"] = (CHK, crc)

    def fix(x, c):
        m = x.msg()
        if len(m) < 4:
            m = m + b"abcd"
        x.call(c, "__call__", [B(m), x.rng.getrandbits(32)], cls=HIST, tag="fix", obj=x.aux["fix"])
    ops["fix"] = (HIST, fix)

    def fix_pos(x, c):
        m = x.msg() + b"abcdefgh"
        x.call(c, "__call__", [B(m), x.rng.randint(0, len(m) - 4), x.rng.getrandbits(32)], cls=HIST,
               tag="fix_pos", obj=x.aux["fixpos"])
    ops["fix_pos"] = (HIST, fix_pos)

    def bad_type(x, c):
        x.call(c, "__call__", [{"s": "text"}], cls=BAD, tag="bad_type")
    ops["bad_type"] = (BAD, bad_type)
    return ops


def _resume(x, c):
    """pull a generator that was started earlier on this object and left suspended"""
    if not x.open_gens:
        return False
    g = x.rng.choice(x.open_gens)
    x.pb.step(c, k="pull", gen=g, n=x.rng.randint(1, 2), cls=ABN, tag="resume", kind=x.kind, obj=x.obj)
    if x.rng.random() < 0.3:
        x.pb.step(c, k="close", gen=g, cls=ABN, tag="close", kind=x.kind, obj=x.obj)
        x.open_gens.remove(g)
    return True


def _with_resume(ops, fallback):
    def resume(x, c):
        if not _resume(x, c):
            ops[fallback][1](x, c)
    ops["resume"] = (ABN, resume)
    return ops


# ---------------------------------------------------------------------------------------------
# kinds: name -> (weight, maker(rng, pb, want_proxy) -> (obj index, info), ops)
def _hinfo(rng, bb, w):
    return {"bb": bb, "w": w, "pool": make_pool(rng, hash_len_classes(bb, w))}


def mk_sha1(rng, pb, px):
    return pb.obj({"kind": "SHA1", "version": rng.choice([0, 1, 1])}), _hinfo(rng, 64, 4)


def mk_sha2(rng, pb, px):
    size, t = rng.choice([(224, 0), (256, 0), (384, 0), (512, 0), (512, 224), (512, 256)])
    bb, w = (64, 4) if size <= 256 else (128, 8)
    return pb.obj({"kind": "SHA2", "size": size, "t": t}), _hinfo(rng, bb, w)


def mk_md4(rng, pb, px):
    return pb.obj({"kind": "MD4"}), _hinfo(rng, 64, 4)


def mk_md5(rng, pb, px):
    return pb.obj({"kind": "MD5"}), _hinfo(rng, 64, 4)


def mk_md6(rng, pb, px):
    r = {"kind": "MD6", "d": rng.choice([128, 160, 256, 30, 125]), "L": rng.choice([0, 0, 1, 64])}
    if rng.random() < 0.3:
        r["key"] = B(rbytes(rng, rng.randint(1, 16)))
    return pb.obj(r), {"bb": 384, "w": 8, "pool": make_pool(rng, [0, 1, 10, 63, 64, 100])}


def mk_blake(rng, pb, px, single=None):
    size = rng.choice([224, 256, 384, 512])
    bb, w = (64, 4) if size <= 256 else (128, 8)
    if single:
        return pb.obj({"kind": "attr", "path": "crysp.blake.blake%d" % size}), _hinfo(rng, bb, w)
    return pb.obj({"kind": "Blake", "size": size}), _hinfo(rng, bb, w)


def mk_blake_s(rng, pb, px):
    return mk_blake(rng, pb, px, True)


def mk_blake2(rng, pb, px, single=None):
    size = rng.choice([256, 512])
    bb, w = (64, 4) if size <= 256 else (128, 8)
    info = {"bb": bb, "w": w, "pool": make_pool(rng, [0, 1, 3, bb - 1, bb, bb + 1, 2 * bb, 2 * bb + 7])}
    if single:
        return pb.obj({"kind": "attr", "path": "crysp.blake.blake2" + ("s" if size == 256 else "b")}), info
    return pb.obj({"kind": "Blake2", "size": size}), info


def mk_blake2_s(rng, pb, px):
    return mk_blake2(rng, pb, px, True)


_KCFG = [(1600, 576, 512), (1600, 448, 224), (1600, 512, 256), (1600, 1024, 512), (800, 256, 128),
         (400, 144, 64), (200, 72, 40), (1600, 264, 256), (100, 60, 16), (50, 10, 16),
         (1600, 512, 30), (1600, 512, 32), (200, 72, 13), (400, 144, 61)]      # output lengths that are not whole bytes too


def _kinfo(rng, b, c):
    r = b - c
    rb = max(1, r // 8)
    return {"b": b, "r": r, "bb": rb,
            "pool": make_pool(rng, sorted(set([0, 1, max(0, rb - 1), rb, rb + 1, 2 * rb, 2 * rb + 3])))}


def mk_keccak(rng, pb, px):
    b, c, ln = rng.choice(_KCFG)
    return pb.obj({"kind": "Keccak", "b": b, "c": c, "len": ln}), _kinfo(rng, b, c)


def mk_keccak_s(rng, pb, px):
    n, c = rng.choice([(224, 448), (256, 512), (384, 768), (512, 1024)])
    return pb.obj({"kind": "attr", "path": "crysp.keccak.keccak_%d" % n}), _kinfo(rng, 1600, c)


def mk_sha3(rng, pb, px):
    n = rng.choice([224, 256, 384, 512])
    return pb.obj({"kind": "SHA3", "size": n}), _kinfo(rng, 1600, 2 * n)


def mk_skein(rng, pb, px):
    nb = rng.choice([256, 256, 512, 1024])
    no = rng.choice([128, 256, 512, 100, 2 * nb + 8])
    r = {"kind": "Skein", "Nb": nb, "No": no}
    if rng.random() < 0.3:
        r["key"] = B(rbytes(rng, rng.choice([0, 5, 16, 40])))
    if rng.random() < 0.2:
        r["Yl"], r["Yf"], r["Ym"] = 1, 1, rng.choice([2, 3])
    for opt_ in ("prs", "PK", "kdf", "nonce"):
        if rng.random() < 0.15:
            r[opt_] = B(rbytes(rng, rng.choice([1, 8, 33])))
    n = nb // 8
    return pb.obj(r), {"nb": n, "bb": n, "pool": make_pool(rng, [0, 1, n - 1, n, n + 1, 2 * n, 2 * n + 3, 4 * n + 1])}


def mk_ubi(rng, pb, px):
    n = rng.choice([32, 32, 64, 128])
    r = {"kind": "UBI", "G": B(rbytes(rng, n)), "type": rng.choice(["msg", "cfg", "key", "out"])}
    if px:
        tc = pb.obj({"kind": "ThreefishClass"})
        r["cipherclass"] = {"obj": pb.obj({"kind": "proxyclass", "inner": {"obj": tc}})}
    info = {"nb": n, "bb": n, "pool": make_pool(rng, [0, 1, n - 1, n, n + 1, 2 * n, 2 * n + 3, 3 * n])}
    if px:
        info["proxy"] = r["cipherclass"]["obj"]
    return pb.obj(r), info


def mk_hmac(rng, pb, px):
    hk = rng.choice(["SHA1", "MD5", "MD4", "SHA2", "Blake"])
    if hk == "SHA2":
        size = rng.choice([224, 256, 384, 512])
        h = pb.obj({"kind": "SHA2", "size": size})
        bb = 64 if size <= 256 else 128
    elif hk == "Blake":
        size = rng.choice([224, 256, 384, 512])
        h = pb.obj({"kind": "Blake", "size": size})
        bb = 64 if size <= 256 else 128
    else:
        h = pb.obj({"kind": hk})
        bb = 64
    hh = h
    info = {"bb": bb, "pool": make_pool(rng, [0, 1, 20, bb - 1, bb, bb + 9]), "aux": {"h": h}}
    if px:
        hh = pb.obj({"kind": "proxy", "inner": {"obj": h}})
        info["proxy"] = hh
    key = rbytes(rng, rng.choice([1, 16, bb - 1, bb, bb + 1, 2 * bb]))
    if rng.random() < 0.2:
        # the key is handed over in the caller's own bytearray (which the caller may wipe afterwards)
        key = rbytes(rng, rng.choice([16, bb, bb, 2 * bb]))
        info["keybuf"] = pb.obj({"kind": "value", "val": {"ba": key.hex()}})
        info["keylen"] = len(key)
        return pb.obj({"kind": "HMAC", "h": {"obj": hh}, "key": {"obj": info["keybuf"]}}), info
    return pb.obj({"kind": "HMAC", "h": {"obj": hh}, "key": B(key)}), info


def _tlsh_pool(rng):
    n = rng.choice([256, 260, 300])
    a, b = rbytes(rng, n), rbytes(rng, n)
    return [a, b, rbytes(rng, rng.choice([256, 400])), a[:200] + b[200:]]


def mk_tlsh(rng, pb, px):
    r = {"kind": "TLSH", "buckets": rng.choice([128, 256, 48]), "wnd": rng.choice([4, 5, 5, 6, 8]),
         "chk": rng.choice([1, 1, 3])}
    return pb.obj(r), {"pool": _tlsh_pool(rng)}


def mk_tlsh_s(rng, pb, px):
    return pb.obj({"kind": "attr", "path": "crysp.tlsh.tlsh"}), {"pool": _tlsh_pool(rng)}


def mk_nilsimsa(rng, pb, px):
    r = {"kind": "Nilsimsa"}
    if rng.random() < 0.3:
        r["target"] = rng.choice([53, 17, 101])
    return pb.obj(r), {"pool": make_pool(rng, [0, 1, 2, 3, 4, 5, 8, 20, 57])}


def _cinfo(rng, bb):
    a, b = rbytes(rng, bb), rbytes(rng, bb)
    return {"bb": bb, "pool": [a, b, bytes(bb), rbytes(rng, bb)]}


def _structured_key(rng, n):
    """mostly random keys; sometimes a short secret zero-padded to the key size, or all-zero"""
    v = rng.random()
    if v < 0.7:
        return rbytes(rng, n)
    if v < 0.9:
        m = rng.choice([4, 8, 16]) if n > 16 else rng.choice([4, 8])
        return rbytes(rng, min(m, n)) + bytes(n - min(m, n))
    return bytes(n)


def mk_aes(rng, pb, px):
    return pb.obj({"kind": "AES", "key": B(_structured_key(rng, rng.choice([16, 24, 32])))}), _cinfo(rng, 16)


def mk_des(rng, pb, px):
    return pb.obj({"kind": "DES", "key": B(rbytes(rng, 8))}), _cinfo(rng, 8)


def mk_tdea(rng, pb, px):
    return pb.obj({"kind": "TDEA", "key": B(rbytes(rng, rng.choice([8, 16])))}), _cinfo(rng, 8)


def mk_serpent(rng, pb, px):
    return pb.obj({"kind": "Serpent", "key": B(rbytes(rng, rng.choice([16, 24, 32])))}), _cinfo(rng, 16)


def mk_threefish(rng, pb, px):
    n = rng.choice([32, 32, 64, 128])
    return pb.obj({"kind": "Threefish", "key": B(rbytes(rng, n)), "tweak": B(rbytes(rng, 16))}), _cinfo(rng, n)


def _mode_cipher(rng, pb, px, even=False):
    ck = rng.choice(["AES", "AES", "DES", "DES", "Toy", "Toy", "Toy", "TDEA", "Serpent"])
    if ck == "AES":
        c, bb = pb.obj({"kind": "AES", "key": B(rbytes(rng, rng.choice([16, 24, 32])))}), 16
    elif ck == "DES":
        c, bb = pb.obj({"kind": "DES", "key": B(rbytes(rng, 8))}), 8
    elif ck == "TDEA":
        c, bb = pb.obj({"kind": "TDEA", "key": B(rbytes(rng, 16))}), 8
    elif ck == "Serpent":
        c, bb = pb.obj({"kind": "Serpent", "key": B(rbytes(rng, 16))}), 16
    else:
        bb = rng.choice([2, 4, 6, 8, 12, 16, 20, 32] if even else [1, 2, 3, 5, 8, 12, 16, 20, 32])
        c = pb.obj({"kind": "Toy", "blocksize": bb * 8, "key": B(rbytes(rng, 4))})
    p = None
    if px:
        p = pb.obj({"kind": "proxy", "inner": {"obj": c}})
        c = p
    return c, bb, p


def _mode_info(rng, bb, pad, proxy):
    lens = sorted(set([0, 1, max(0, bb - 1), bb, bb + 1, 2 * bb, 2 * bb + 1, 3 * bb - 1]))
    if bb <= 8 and rng.random() < 0.3:
        lens += [9 * bb, 12 * bb + 1]              # many blocks (cheap block ciphers only)
    info = {"bb": bb, "pool": make_pool(rng, lens), "pad": pad}
    if pad == "nopadding":
        info["aligned_only"] = True
    if proxy is not None:
        info["proxy"] = proxy
    return info


def mk_ecb(rng, pb, px):
    c, bb, p = _mode_cipher(rng, pb, px)
    pad = rng.choice([None, None, "pkcs7", "X923", "bitpadding", "Nullpadding", "nopadding"])
    r = {"kind": "ECB", "cipher": {"obj": c}}
    if pad:
        r["pad"] = pad
    return pb.obj(r), _mode_info(rng, bb, pad or "pkcs7", p)


def mk_cbc(rng, pb, px):
    c, bb, p = _mode_cipher(rng, pb, px)
    pad = rng.choice([None, None, "pkcs7", "X923", "bitpadding", "Nullpadding", "nopadding"])
    r = {"kind": "CBC", "cipher": {"obj": c}, "iv": B(rbytes(rng, bb))}
    if rng.random() < 0.2:
        r["iv"] = {"ba": r["iv"]["b"]}          # the IV handed over as a bytearray
    if pad:
        r["pad"] = pad
    return pb.obj(r), _mode_info(rng, bb, pad or "pkcs7", p)


def mk_ctr(rng, pb, px):
    c, bb, p = _mode_cipher(rng, pb, px and rng.random() < 0.5, even=True)
    r = {"kind": "CTR", "cipher": {"obj": c}}
    v = rng.random()
    if v < 0.45:
        r["counter"] = B(rbytes(rng, bb))
    elif v < 0.9:
        iv = rbytes(rng, bb // 2) + b"\xff" * (bb // 2 - 1) + bytes([rng.choice([0xfe, 0xff, 0])])
        if rng.random() < 0.2:
            iv = b"\xff" * (bb - 1) + bytes([rng.choice([0xfe, 0xff])])       # the whole block wraps
        dc = pb.obj({"kind": "DefaultCounter", "bytesize": bb, "iv": B(iv)})
        if px and p is None:
            p = pb.obj({"kind": "proxy", "inner": {"obj": dc}})
            dc = p
        r["counter"] = {"obj": dc}
    return pb.obj(r), _mode_info(rng, bb, "ctr", p)


def mk_salsa(rng, pb, px):
    ks = rng.choice([128, 256])
    r = {"kind": "Salsa20", "key": {"bits": [rng.getrandbits(ks), ks]}, "rounds": rng.choice([2, 2, 4, 8, 12, 20])}
    return pb.obj(r), {"pool": make_pool(rng, [0, 1, 63, 64, 65, 130, 200] if r["rounds"] < 12 else [0, 1, 63, 64, 130])}


def mk_chacha(rng, pb, px):
    ks = rng.choice([128, 256])
    r = {"kind": "Chacha", "key": {"bits": [rng.getrandbits(ks), ks]}, "rounds": rng.choice([2, 4, 8, 8, 12, 20])}
    return pb.obj(r), {"pool": make_pool(rng, [0, 1, 63, 64, 65, 130] if r["rounds"] < 12 else [0, 1, 63, 64])}


def mk_crc(rng, pb, px):
    o = pb.obj({"kind": "attr", "path": "crysp.crc.crc32"})
    aux = {"crc": pb.obj({"kind": "attr", "path": "crysp.crc.crc"}),
           "table": pb.obj({"kind": "attr", "path": "crysp.crc.TABLE32_1"}),
           "fix": pb.obj({"kind": "attr", "path": "crysp.crc.crc32_fix"}),
           "fixpos": pb.obj({"kind": "attr", "path": "crysp.crc.crc32_fix_pos"}),
           "mktable": pb.obj({"kind": "attr", "path": "crysp.crc.crc_table"})}
    pool = make_pool(rng, [0, 1, 4, 5, 9, 33])
    a = pool[0] or b"seed"
    pool = [a, a + pool[2], a[:max(1, len(a) // 2)], pool[1]]        # prefix-related messages
    return o, {"pool": pool, "aux": aux}


_PEEK = ["H", "size", "blocksize", "outlen", "padmethod", "padmethod.bitcnt", "len", "pad", "pad.padflag", "K", "S", "counter",
         "r", "c", "C", "G", "key", "p", "dround", "IV", "Nb", "No", "lsh_code", "count", "dacc", "keys", "Nr", "Nk", "wsize",
         "salt", "rounds", "h", "tran", "checksum", "Lvalue", "E1", "Ts", "version", "w", "b", "n"]


_SINGLETON_CLASS = {
    "blake_singleton": {"kind": "Blake", "size": 256}, "blake2_singleton": {"kind": "Blake2", "size": 256},
    "keccak_singleton": {"kind": "Keccak", "b": 1600, "c": 512, "len": 256},
    "tlsh_singleton": {"kind": "TLSH", "buckets": 128, "wnd": 5, "chk": 1},
}
_CONS_DEFAULTS = {"Nilsimsa": {"target": 53}, "MD6": {"d": 512, "L": 0}, "SHA1": {"version": 1}, "Salsa20": {"rounds": 20},
                  "Chacha": {"rounds": 8}, "TLSH": {"wnd": 5, "chk": 1}}
_NUMERIC = ("size", "version", "t", "b", "c", "len", "d", "L", "Nb", "No", "buckets", "wnd", "chk", "target", "rounds",
            "bytesize", "blocksize")


def _with_bad_make(ops):
    """fault kind bad_call on a constructor: an object of the same class is constructed with a configuration
    that differs from the main object's in one field - the same number as a float, a neighbouring
    unsupported number, a key of the wrong length or type, a missing collaborator - and is never used.
    Whether or not the library refuses the construction, the main object must be unaffected."""
    import copy

    def bad_make(x, c):
        rec = copy.deepcopy(x.pb.plan["objects"][x.obj])
        if rec.get("kind") == "attr":
            rec = dict(_SINGLETON_CLASS.get(x.kind, {}))
        if not rec or rec.get("kind") in ("proxy", "value"):
            return
        for k, v in _CONS_DEFAULTS.get(rec["kind"], {}).items():
            rec.setdefault(k, v)
        nums = [k for k in _NUMERIC if isinstance(rec.get(k), int) and not isinstance(rec.get(k), bool)]
        keys = [k for k in ("key", "iv", "counter", "tweak", "G") if isinstance(rec.get(k), dict) and "b" in rec[k]]
        colls = [k for k in ("cipher", "h") if k in rec]
        v = x.rng.random()
        how = None
        if nums and (v < 0.5 or not (keys or colls)):
            f = x.rng.choice(nums)
            if x.rng.random() < 0.6:
                rec[f] = float(rec[f])
                how = "float"
            else:
                rec[f] = rec[f] + x.rng.choice([1, -1])
                how = "neighbour"
        elif keys and (v < 0.85 or not colls):
            f = x.rng.choice(keys)
            raw = bytes.fromhex(rec[f]["b"])
            w = x.rng.random()
            if w < 0.4:
                rec[f] = B(raw[:-1])
            elif w < 0.7:
                rec[f] = B(raw + b"\x00")
            else:
                rec[f] = x.rng.choice([12345, None])
            how = "key"
        elif colls:
            rec[x.rng.choice(colls)] = None
            how = "collaborator"
        if how is None:
            return
        rec["deferred"] = True
        bo = x.pb.obj(rec)
        x.pb.step(c, k="make", slot=bo, obj=x.obj, name="make", cls=BAD, tag="bad_make", kind=x.kind, how=how)
    ops["bad_make"] = (BAD, bad_make)
    return ops


def _with_peek(ops):
    """reading public attributes, repr() and str() between calls must not change anything"""
    def peek(x, c):
        for _ in range(x.rng.randint(1, 3)):
            if x.rng.random() < 0.25:
                x.pb.step(c, k="repr", obj=x.obj, cls=HIST, tag="peek", kind=x.kind)
            else:
                x.pb.step(c, k="get", obj=x.obj, path=x.rng.choice(_PEEK), cls=HIST, tag="peek", kind=x.kind)
    ops["peek"] = (HIST, peek)
    return ops


KINDS = {
    "SHA1": (4, mk_sha1, _with_resume(hash_ops(), "iter_part")),
    "SHA2": (5, mk_sha2, _with_resume(hash_ops(), "iter_part")),
    "MD4": (3, mk_md4, _with_resume(hash_ops(), "iter_part")),
    "MD5": (3, mk_md5, _with_resume(hash_ops(), "iter_part")),
    "MD6": (1, mk_md6, _md6_ops()),
    "Blake": (4, mk_blake, _with_resume(hash_ops(has_salt=True), "iter_part")),
    "blake_singleton": (3, mk_blake_s, _with_resume(hash_ops(has_salt=True), "iter_part")),
    "Blake2": (4, mk_blake2, blake2_ops()),
    "blake2_singleton": (4, mk_blake2_s, blake2_ops()),
    "Keccak": (5, mk_keccak, _with_resume(keccak_ops(), "iter_part")),
    "keccak_singleton": (4, mk_keccak_s, _with_resume(keccak_ops(), "iter_part")),
    "SHA3": (2, mk_sha3, keccak_ops(sha3=True)),
    "Skein": (2, mk_skein, skein_ops()),
    "UBI": (2, mk_ubi, _with_resume(ubi_ops(), "iter_part")),
    "HMAC": (4, mk_hmac, hmac_ops()),
    "TLSH": (2, mk_tlsh, tlsh_ops()),
    "tlsh_singleton": (2, mk_tlsh_s, tlsh_ops()),
    "Nilsimsa": (3, mk_nilsimsa, nilsimsa_ops()),
    "AES": (4, mk_aes, cipher_ops(aes=True)),
    "DES": (2, mk_des, cipher_ops()),
    "TDEA": (1, mk_tdea, cipher_ops()),
    "Serpent": (1, mk_serpent, cipher_ops()),
    "Threefish": (2, mk_threefish, cipher_ops()),
    "ECB": (6, mk_ecb, _with_resume(mode_ops(), "iter_part")),
    "CBC": (6, mk_cbc, _with_resume(mode_ops(), "iter_part")),
    "CTR": (5, mk_ctr, _with_resume(mode_ops(ctr=True), "iter_part")),
    "Salsa20": (3, mk_salsa, _with_resume(stream_ops(), "ks_part")),
    "Chacha": (3, mk_chacha, _with_resume(stream_ops(), "ks_part")),
    "crc": (4, mk_crc, crc_ops()),
}
for _k in list(KINDS):
    if _k != "crc":
        _with_peek(KINDS[_k][2])
        _with_bad_make(KINDS[_k][2])
SINGLETONS = {"blake_singleton", "blake2_singleton", "keccak_singleton", "tlsh_singleton", "crc"}
_KNAMES = sorted(KINDS)
_KNAMES_NS = [k for k in sorted(KINDS) if k not in SINGLETONS]
_KW = [KINDS[k][0] for k in _KNAMES]


def all_trigrams():
    """Per kind: every (a, b, c) over the kind's alphabet with c a checked op."""
    out = []
    for k in _KNAMES:
        ops = KINDS[k][2]
        names = sorted(ops)
        chk = [n for n in names if ops[n][0] == CHK]
        for a in names:
            for b in names:
                for c in chk:
                    out.append((k, a, b, c))
    return out


_TRI = all_trigrams()


def all_bigrams():
    s = set()
    for (k, a, b, c) in _TRI:
        s.add((k, b, c))
    return sorted(s)


_BI = all_bigrams()


def all_fault_bigrams():
    out = []
    for k in _KNAMES:
        ops = KINDS[k][2]
        names = sorted(ops)
        chk = [n for n in names if ops[n][0] == CHK]
        for a in names:
            if ops[a][0] in (BAD, RCF):
                continue
            for c in chk:
                for u in (0.0, 0.02, 0.5, 0.97):
                    out.append((k, a, u, c))
                if k in ("ECB", "CBC", "CTR", "HMAC", "UBI") and ops[a][0] == CHK:
                    out.append((k, a, "collab", c))
    return out


_FB = all_fault_bigrams()


def all_gen_interleavings():
    out = []
    for k in _KNAMES:
        ops = KINDS[k][2]
        if "resume" not in ops:
            continue
        chk = sorted(n for n in ops if ops[n][0] == CHK)
        for a in sorted(n for n in ops if ops[n][0] == ABN and n != "resume"):
            for c1 in chk:
                for c2 in chk:
                    out.append((k, a, c1, c2))
    return out


_GI = all_gen_interleavings()


_FAMILIES = [
    ("Salsa20", "Chacha"),
    ("SHA1", "SHA2", "MD4", "MD5", "HMAC", "Blake", "blake_singleton"),
    ("Blake", "Blake2", "blake_singleton", "blake2_singleton", "SHA2"),
    ("Keccak", "keccak_singleton", "SHA3"),
    ("Skein", "UBI", "Threefish"),
    ("ECB", "CBC", "CTR", "AES", "DES", "TDEA", "Serpent"),
    ("DES", "TDEA"),
    ("TLSH", "tlsh_singleton", "Nilsimsa"),
    ("MD6", "Keccak", "SHA3"),
]
FAMILY = {}
for _f in _FAMILIES:
    for _k in _f:
        FAMILY.setdefault(_k, [])
        for _j in _f:
            if _j != _k and _j not in FAMILY[_k]:
                FAMILY[_k].append(_j)


def _stride(n):
    from math import gcd
    k = int(n * 0.618) | 1
    while gcd(k, n) != 1:
        k += 2
    return k


_STRIDE_TRI = _stride(len(_TRI))
_STRIDE_FB = _stride(len(_FB))


def _other(rng, cur, choices):
    c = [x for x in choices if x != cur]
    return rng.choice(c) if c else cur


def _cz_sha2(rng, rec, info):
    rec["size"] = _other(rng, rec["size"], [224, 256, 384, 512])
    rec.pop("t", None)
    info["bb"], info["w"] = (64, 4) if rec["size"] <= 256 else (128, 8)


def _cz_size(sizes):
    def f(rng, rec, info):
        rec["size"] = _other(rng, rec["size"], sizes)
        if "bb" in info and "w" in info:
            info["bb"], info["w"] = (64, 4) if rec["size"] <= 256 else (128, 8)
    return f


def _cz_sha3(rng, rec, info):
    rec["size"] = _other(rng, rec["size"], [224, 256, 384, 512])
    info["r"] = 1600 - 2 * rec["size"]
    info["bb"] = info["r"] // 8


def _cz_keccak(rng, rec, info):
    b = rec["b"]
    if rng.random() < 0.5:
        rec["len"] = _other(rng, rec["len"], [16, 64, 128, 224, 256, 512, 13, 30, 32, 61])
    else:
        c = _other(rng, rec["c"], [x for x in (8, 16, 24, 40, 64, 72, 128, 144, 256, 448, 512, 576, 1024) if x < b and b - x <= 1536])
        rec["c"] = c
        info["r"] = b - c
        info["bb"] = max(1, info["r"] // 8)


def _cz_md6(rng, rec, info):
    if rng.random() < 0.5:
        rec["d"] = _other(rng, rec.get("d", 512), [128, 160, 256, 30, 32, 125])
    else:
        rec["L"] = _other(rng, rec.get("L", 0), [0, 1, 64])


def _cz_skein(rng, rec, info):
    v = rng.random()
    if v < 0.5:
        rec["Nb"] = _other(rng, rec["Nb"], [256, 512, 1024])
        info["nb"] = info["bb"] = rec["Nb"] // 8
    elif v < 0.8:
        rec["No"] = _other(rng, rec["No"], [128, 256, 512, 100])
    elif "key" in rec:
        del rec["key"]
    else:
        rec["key"] = B(rbytes(rng, 16))


def _cz_ubi(rng, rec, info):
    rec["type"] = _other(rng, rec.get("type", "msg"), ["msg", "cfg", "key", "out", "prs"])


def _cz_tlsh(rng, rec, info):
    v = rng.random()
    if v < 0.4:
        rec["buckets"] = _other(rng, rec["buckets"], [128, 256, 48])
    elif v < 0.7:
        rec["wnd"] = _other(rng, rec.get("wnd", 5), [4, 5, 6, 7, 8])
    else:
        rec["chk"] = _other(rng, rec.get("chk", 1), [1, 3])


def _cz_nilsimsa(rng, rec, info):
    rec["target"] = _other(rng, rec.get("target", 53), [53, 17, 101])


def _cz_rounds(rng, rec, info):
    if rng.random() < 0.7:
        rec["rounds"] = _other(rng, rec["rounds"], [2, 4, 8, 12])
    else:
        ks = 128 if rec["key"]["bits"][1] == 256 else 256
        rec["key"] = {"bits": [rec["key"]["bits"][0] & ((1 << ks) - 1), ks]}


def _cz_mode(rng, rec, info):
    v = rng.random()
    if v < 0.5 and rec["kind"] in ("ECB", "CBC"):
        cur = rec.get("pad", "pkcs7")
        rec["pad"] = _other(rng, cur, ["pkcs7", "X923", "bitpadding"] if cur != "nopadding" else ["nopadding"])
        info["pad"] = rec["pad"]
    elif "iv" in rec:
        kk = "ba" if "ba" in rec["iv"] else "b"
        iv = bytes.fromhex(rec["iv"][kk])
        rec["iv"] = {kk: (bytes([iv[0] ^ 1]) + iv[1:]).hex()} if iv else rec["iv"]
    elif isinstance(rec.get("counter"), dict) and "b" in rec["counter"]:
        cv = bytes.fromhex(rec["counter"]["b"])
        rec["counter"] = B(bytes([cv[0] ^ 1]) + cv[1:]) if cv else rec["counter"]


def _cz_threefish(rng, rec, info):
    t = bytes.fromhex(rec["tweak"]["b"])
    rec["tweak"] = B(bytes([t[0] ^ 1]) + t[1:])


def _cz_aes(rng, rec, info):
    # the related key of another size: truncated, zero-extended or repeated
    k = bytes.fromhex(rec["key"]["b"])
    n = _other(rng, len(k), [16, 24, 32])
    if n > len(k) and rng.random() < 0.6:
        rec["key"] = B(k + bytes(n - len(k)))
    else:
        rec["key"] = B((k + k)[:n])


COUSIN = {
    "SHA1": lambda rng, rec, info: rec.__setitem__("version", 1 - rec.get("version", 1)),
    "SHA2": _cz_sha2, "SHA3": _cz_sha3, "Keccak": _cz_keccak, "MD6": _cz_md6,
    "Blake": _cz_size([224, 256, 384, 512]), "Blake2": _cz_size([256, 512]),
    "Skein": _cz_skein, "UBI": _cz_ubi, "TLSH": _cz_tlsh, "Nilsimsa": _cz_nilsimsa,
    "Salsa20": _cz_rounds, "Chacha": _cz_rounds, "ECB": _cz_mode, "CBC": _cz_mode, "CTR": _cz_mode,
    "Threefish": _cz_threefish, "AES": _cz_aes,
}


def _twin(rng, pb, n0, n1, o, info, keep_key=False):
    """Append a copy of objects n0..n1-1 with only the key material replaced; return the index of
    the copy of object o and a matching info dict."""
    import copy
    d = n1 - n0

    def sh(v):
        if isinstance(v, list):
            return [sh(x) for x in v]
        if isinstance(v, dict):
            return {k: ((x + d) if (k == "obj" and isinstance(x, int) and n0 <= x < n1) else sh(x)) for k, x in v.items()}
        return v
    for i in range(n0, n1):
        rec = sh(copy.deepcopy(pb.plan["objects"][i]))
        k = rec.get("key") if not keep_key else None
        if isinstance(k, dict) and "b" in k and len(k["b"]) > 0:
            rec["key"] = B(rbytes(rng, len(k["b"]) // 2))
        elif isinstance(k, dict) and "bits" in k:
            rec["key"] = {"bits": [rng.getrandbits(k["bits"][1]), k["bits"][1]]}
        pb.plan["objects"].append(rec)
    sinfo = dict(info)
    sinfo["open_gens"] = []
    if "proxy" in sinfo:
        sinfo["proxy"] = sinfo["proxy"] + d
    if "aux" in sinfo:
        sinfo["aux"] = {k: (v + d if n0 <= v < n1 else v) for k, v in sinfo["aux"].items()}
    if "keybuf" in sinfo:
        sinfo["keybuf"] = sinfo["keybuf"] + d
    return o + d, sinfo


def _patched(rec, upd):
    r = dict(rec)
    for k, v in upd.items():
        if v is None:
            r.pop(k, None)
        else:
            r[k] = v
    return r


class C10(Machine):
    prop = "C10"
    title = "one-shot results depend only on the arguments"
    runs = (6000, 150000)
    components = {
        "real": ["crysp.sha SHA1/SHA2/SHA3", "crysp.md MD4/MD5/MD6", "crysp.blake Blake/Blake2 + module singletons",
                 "crysp.keccak Keccak + keccak_* singletons", "crysp.skein Skein/UBI/Tweak", "crysp.threefish",
                 "crysp.hmac HMAC", "crysp.tlsh TLSH + tlsh singleton", "crysp.nilsimsa", "crysp.aes", "crysp.des DES/TDEA",
                 "crysp.serpent", "crysp.mode ECB/CBC/CTR/DefaultCounter", "crysp.padding", "crysp.salsa20", "crysp.chacha",
                 "crysp.crc", "crysp.bits", "crysp.poly"],
        "stub": ["FaultyProxy/ProxyClass (delegates to the real collaborator, raises InjectedFault on the k-th call)",
                 "ToyCipher (affine byte cipher used as the block cipher of a minority of mode runs)"],
    }
    rule = ("one evaluation = one simulated run (1-3 clients, <=14 steps) executed in a child forked from a pristine "
            "zygote; every checked one-shot call is compared with the same call on a freshly built object in its own "
            "pristine child (built with the configuration in force at that point: valid setrate / counter.setup / setkey "
            "calls move it, refused ones do not). distinct = distinct abstract traces (sequence of (client, object role, kind, op class, fault)); "
            "non-trivial = the trace has at least one judged call preceded by at least one other step that touches the "
            "same object, a sibling of the same class, or module state")

    def gen(self, rng, idx, seed):
        pb = PlanBuilder(self.prop, seed, idx)
        steer = None
        mode = idx % 5
        if mode == 0:
            # (strides coprime with the table sizes: a short batch samples all kinds, a long one covers the table)
            steer = _TRI[((idx // 5) * _STRIDE_TRI) % len(_TRI)]
            kind = steer[0]
        elif mode == 1:
            bi = _BI[(idx // 5) % len(_BI)]
            steer = (bi[0], None, bi[1], bi[2])
            kind = steer[0]
        elif mode == 2:
            # steered fault bigram: (kind, op a carrying an interrupt early/mid/late or a failing
            # collaborator, checked op c right after it on the same object)
            fsteer = _FB[((idx // 5) * _STRIDE_FB) % len(_FB)]
            kind = fsteer[0]
        elif idx % 10 == 4:
            # steered generator interleaving: start a generator and leave it suspended, make a
            # checked call, resume the generator, make a checked call again
            gsteer = _GI[(idx // 10) % len(_GI)]
            kind = gsteer[0]
        elif mode == 3:
            # steered sibling run: a twin/cousin of the main object makes a checked call first,
            # then the main object makes the same kind of call on the same message
            kind = _KNAMES_NS[(idx // 5) % len(_KNAMES_NS)]
        else:
            kind = rng.choices(_KNAMES, _KW)[0]
        fsteer = fsteer if mode == 2 else None
        gsteer = gsteer if idx % 10 == 4 else None
        faulty = rng.random() >= 0.4 or fsteer is not None or gsteer is not None
        fk = {"bad_call": False, "abandon": False, "interrupt": False, "collab_fail": False}
        if faulty:
            for n in fk:
                fk[n] = rng.random() < 0.55
            if not any(fk.values()):
                fk[rng.choice(sorted(fk))] = True
        if gsteer is not None:
            fk["abandon"] = True
        if fsteer is not None:
            fk["collab_fail" if fsteer[2] == "collab" else "interrupt"] = True
            if KINDS[kind][2][fsteer[1]][0] == ABN:
                fk["abandon"] = True
        w, mk, ops = KINDS[kind]
        want_px = fk["collab_fail"]
        n0 = len(pb.plan["objects"])
        o, info = mk(rng, pb, want_px)
        n1 = len(pb.plan["objects"])
        x = Ctx(rng, pb, kind, o, info)
        ctxs = [x]
        roles = {str(o): "main"}
        # sibling instance of the same kind -> class-level state.  Half of the siblings are a
        # *twin*: the same recipe (same IV/counter/options, same message pool) with only the key
        # replaced, so that anything cached per class and keyed on too little shows.
        sib = None
        if (rng.random() < 0.6 or mode == 3) and kind not in ("crc",):
            v = rng.random() if mode != 3 else rng.random() * 0.7
            if v < 0.35 and kind not in SINGLETONS:
                so, sinfo = _twin(rng, pb, n0, n1, o, info)
                pb.plan["meta"]["twin"] = "key"
            elif v >= 0.7 and v < 0.85 and kind in ("ECB", "CBC", "CTR", "HMAC") and mode != 3:
                # a sibling built over the SAME collaborator object (cipher / counter / hash):
                # two modes sharing one cipher, two HMACs sharing one hash object
                import copy as _copy
                rec = _copy.deepcopy(pb.plan["objects"][o])
                sinfo = dict(info)
                sinfo["open_gens"] = []
                if kind == "HMAC":
                    rec["key"] = B(rbytes(rng, rng.choice([1, 16, info["bb"], info["bb"] + 1])))
                    sinfo.pop("keybuf", None)
                else:
                    _cz_mode(rng, rec, sinfo)
                so = pb.obj(rec)
                pb.plan["meta"]["twin"] = "shared_collaborator"
            elif v < 0.7 and kind in COUSIN:
                # a *cousin*: the same recipe with exactly one configuration field changed (and
                # the same message pool), so that anything cached per class/module and keyed on
                # an incomplete description of the configuration shows
                so, sinfo = _twin(rng, pb, n0, n1, o, info, keep_key=True)
                sinfo = dict(sinfo)
                COUSIN[kind](rng, pb.plan["objects"][so], sinfo)
                pb.plan["meta"]["twin"] = "cousin"
            else:
                so, sinfo = mk(rng, pb, False)
            if pb.plan["meta"].get("twin"):
                pb.plan["meta"]["twin_kind"] = kind
            sib = Ctx(rng, pb, kind, so, sinfo)
            roles[str(so)] = "sibling"
            ctxs.append(sib)
        # another object of a different kind: two times out of three a *relative* of the main kind (a subclass
        # or base class, a class built on the same helpers, the collaborator class), otherwise any kind
        oth = None
        if rng.random() < 0.35:
            fam = [k_ for k_ in FAMILY.get(kind, ()) if k_ != kind]
            if fam and rng.random() < 0.66:
                ok = rng.choice(fam)
                pb.plan["meta"]["other_is_relative"] = True
            else:
                ok = rng.choices(_KNAMES, _KW)[0]
            oo, oinfo = KINDS[ok][1](rng, pb, False)
            oth = Ctx(rng, pb, ok, oo, oinfo)
            roles[str(oo)] = "other"
        names = sorted(ops)

        def allowed(n):
            cls = ops[n][0]
            if cls == BAD:
                return fk["bad_call"]
            if cls == ABN:
                return fk["abandon"]
            return True
        ok_names = [n for n in names if allowed(n)]
        chk_names = [n for n in names if ops[n][0] == CHK]

        def emit(ctx, c, n):
            KINDS[ctx.kind][2][n][1](ctx, c)

        c0 = pb.client()
        if kind not in SINGLETONS and mode != 3 and gsteer is None and rng.random() < 0.2 and "keybuf" not in info \
                and (sib is None or "keybuf" not in sib.info):
            # the main object (and its sibling) is constructed only now, in the schedule - after, three times
            # out of four, a refused or odd construction of a related object of the same class
            if rng.random() < 0.75:
                fk["bad_call"] = True
                emit(x, c0, "bad_make")
            firsts = [x] + ([sib] if sib is not None else [])
            rng.shuffle(firsts)
            for t in firsts:
                pb.plan["objects"][t.obj]["deferred"] = True
                pb.step(c0, k="make", slot=t.obj, obj=t.obj, name="make", tag="make_first", kind=t.kind, cls=HIST, core=True)
            pb.plan["meta"]["deferred_construction"] = True
        npre = rng.choice([0, 0, 1, 2, 3])
        for _ in range(npre):
            emit(x, c0, rng.choice(ok_names))
        if steer:
            for n in steer[1:3]:
                if n:
                    emit(x, c0, n)
            emit(x, c0, steer[3])
        elif gsteer is not None:
            core0 = len(pb.clients[c0])
            emit(x, c0, gsteer[1])
            x.open_gens[:] = x.open_gens or [t["id"] for t in pb.clients[c0] if t.get("cls") == ABN and t["k"] == "call"][-1:]
            # growing sizes: the first checked call on a short message, the second on the longest
            pool = x.pool
            by_len = sorted(pool, key=len)
            grow = rng.random() < 0.6
            if grow:
                x.pool = by_len[:2]
            emit(x, c0, gsteer[2])
            emit(x, c0, "resume")
            if grow:
                x.pool = by_len[-1:]
            emit(x, c0, gsteer[3])
            x.pool = pool
            for t in pb.clients[c0][core0:]:
                t["core"] = True          # the random fault plan leaves the steered pattern alone
        elif mode == 3 and sib is not None:
            pool = x.pool
            one = [pool[rng.randrange(len(pool))]]
            x.pool = sib.pool = one
            n = rng.choice(chk_names)
            for _ in range(rng.choice([1, 1, 2])):
                emit(sib, c0, n)
            emit(x, c0, n)
            x.pool = sib.pool = pool
        elif fsteer is not None:
            before = len(pb.clients[c0])
            emit(x, c0, fsteer[1])
            tgt = [t for t in pb.clients[c0][before:] if t["k"] in ("call", "pull")]
            if fsteer[2] == "collab":
                tgt = [t for t in tgt if t["k"] == "call" and t.get("obj") == x.obj and "proxy" in x.info]
                if tgt:
                    tgt[0]["fault"] = {"kind": "collab_fail", "proxy": x.info["proxy"], "u": rng.random()}
            elif tgt:
                tgt[-1 if rng.random() < 0.3 else 0]["fault"] = {"kind": "interrupt", "u": fsteer[2] + rng.random() * 0.02}
            emit(x, c0, fsteer[3])
        else:
            for _ in range(rng.randint(1, 3)):
                emit(x, c0, rng.choice(ok_names))
            emit(x, c0, rng.choice(chk_names))
        if rng.random() < 0.4:
            emit(x, c0, rng.choice(chk_names))
        # second / third client
        nclients = rng.choice([1, 2, 2, 3])
        for ci in range(1, nclients):
            c = pb.client()
            r = rng.random()
            if sib is not None and r < 0.45:
                tgt = sib
            elif r < 0.8 or oth is None:
                tgt = x            # shares the main object (or the singleton) with client 0
                pb.plan["meta"]["shared"] = True
            else:
                tgt = oth
            if tgt is sib and rng.random() < 0.4 and not pb.plan["meta"].get("late_sibling") and mode != 3 \
                    and "keybuf" not in sib.info:
                # the sibling is (re)built only now, after the main object may already have worked
                pb.step(c, k="make", slot=sib.obj, obj=sib.obj, name="make", tag="make", kind=sib.kind, cls=HIST)
                pb.plan["meta"]["late_sibling"] = True
            tops = KINDS[tgt.kind][2]
            tnames = [n for n in sorted(tops) if (tops[n][0] not in (BAD, ABN)) or
                      (tops[n][0] == BAD and fk["bad_call"]) or (tops[n][0] == ABN and fk["abandon"])]
            for _ in range(rng.randint(1, 3)):
                emit(tgt, c, rng.choice(tnames))
        plan = pb.finish(rng)
        # argument types: one message in ten is handed over as a bytearray instead of bytes
        for st_ in plan["steps"]:
            if st_["k"] == "call" and st_.get("cls") in (CHK, HIST) and st_.get("args") and rng.random() < 0.1:
                a0 = st_["args"][-1] if st_.get("name") in ("enc", "dec") and len(st_["args"]) == 2 else st_["args"][0]
                if isinstance(a0, dict) and set(a0) == {"b"}:
                    a0["ba"] = a0.pop("b")
        # fault plan: interrupts / collaborator failures on 1-2 call steps
        calls = [s for s in plan["steps"] if s["k"] in ("call", "pull") and s.get("cls") not in (BAD, RCF) and not s.get("core")]
        nf = 0
        if fk["interrupt"] and calls:
            for s in rng.sample(calls, min(len(calls), rng.choice([1, 1, 2]))):
                if "fault" in s:
                    continue
                u = rng.random()
                if rng.random() < 0.25:
                    u = rng.choice([0.0, 0.001, 0.01, 0.98, 0.999])
                s["fault"] = {"kind": "interrupt", "u": u}
                nf += 1
        if fk["collab_fail"]:
            for cx in ctxs:
                if "proxy" in cx.info:
                    cs = [s for s in calls if s.get("obj") == cx.obj and s["k"] == "call" and "fault" not in s
                          and s.get("name") in ("enc", "dec", "__call__")]
                    for s in rng.sample(cs, min(len(cs), rng.choice([1, 1, 2]))):
                        s["fault"] = {"kind": "collab_fail", "proxy": cx.info["proxy"], "u": rng.random()}
                        nf += 1
        plan["meta"].update({"kind": kind, "roles": roles, "enabled": sorted(k for k in fk if fk[k]),
                             "steer": list(steer) if steer else None})
        plan["fp"] = [o] + ([sib.obj] if sib else [])
        plan["recheck_results"] = True
        return plan

    # -----------------------------------------------------------------------------------------
    def check(self, plan, hist, oracle):
        by_id = {e["id"]: e for e in hist}
        vs = []
        probes = {}

        def probe(n, k=1):
            probes[n] = probes.get(n, 0) + k
        roles = plan["meta"].get("roles", {})
        last_on_obj = {}      # obj -> list of (tag, cls, outcome kind, fault kind)
        prev_any = []
        trace = []
        nontrivial = False
        ngrams = set()
        fcount = {}
        # effective configuration: starts as the recipes of the plan; a successful reconfiguration step
        # replaces the recipe the fresh twin is built from; a failed one makes the configuration unknown
        # (nothing that depends on it is judged any more); a late 'make' rebuilds from the plan's recipe
        def _nd(r):
            return {k: v for k, v in r.items() if k != "deferred"} if "deferred" in r else r
        eff = [_nd(r) for r in plan["objects"]]
        has_deferred = any("deferred" in r for r in plan["objects"])
        built = set(i for i, r in enumerate(plan["objects"]) if "deferred" not in r)
        unknown = set()
        reconfd = set()
        for s in plan["steps"]:
            e = by_id[s["id"]]
            out = e["out"]
            oi = s.get("obj")
            kind = s.get("kind", "?")
            flt = s.get("fault")
            fired = bool(e.get("flt", {}).get("fired"))
            ftag = ""
            if flt:
                d = fcount.setdefault(flt["kind"], [0, 0])
                d[0] += 1
                d[1] += 1 if fired else 0
                ftag = "!" + flt["kind"] if fired else ""
            if s.get("cls") == BAD:
                d = fcount.setdefault("bad_call", [0, 0])
                d[0] += 1
                d[1] += 1 if out[0] == "exc" else 0
            if s.get("cls") == ABN and s["k"] == "call":
                d = fcount.setdefault("abandon", [0, 0])
                d[0] += 1
                d[1] += 1 if out[0] == "ok" else 0
            tag = s.get("tag", s["k"])
            trace.append("%d:%s:%s:%s%s" % (s.get("c", 0), roles.get(str(oi), "aux"), kind, tag, ftag))
            hist_obj = last_on_obj.setdefault(oi, [])
            judged = s.get("cls") == CHK and not fired and out[0] in ("ok", "exc")
            if judged and has_deferred and oi not in built:
                judged = False            # the object of this step has not been constructed yet
                probe("not_judged_object_not_yet_constructed")
            if judged and (unknown or reconfd):
                deps = obj_closure(eff, [oi])
                if deps & unknown:
                    judged = False
                    probe("not_judged_configuration_unknown")
                elif deps & reconfd:
                    probe("judged_after_reconfiguration")
            if judged:
                mini = oracle_plan_for_call(plan if not (reconfd or has_deferred) else dict(plan, objects=eff), s, by_id)
                if mini is not None:
                    oh = oracle.ask(mini)
                    exp = oh[0]["out"]
                    bad = None
                    if exp[0] == "ok" and out != exp:
                        bad = "differs_from_fresh"
                    elif exp[0] == "exc" and out[0] == "ok":
                        bad = "fresh_raises_history_returns"
                    if bad:
                        vs.append(vio(bad, kind, tag, s["id"],
                                      {"got": out, "fresh": exp, "call": mini["steps"][0]}))
                    probe("judged_calls")
                    if hist_obj or prev_any:
                        nontrivial = True
                    if hist_obj:
                        p = hist_obj[-1]
                        if p[1] == BAD and p[2] == "exc":
                            probe("checked_after_bad_call_same_obj")
                        if p[0] == "bad_make":
                            probe("checked_after_%s_construction_of_a_related_object" % ("refused" if p[2] == "exc" else "accepted"))
                        if p[3] == "collab_fail":
                            probe("checked_after_collab_fail_same_obj")
                        if p[3] == "interrupt":
                            probe("checked_after_interrupt_same_obj")
                            probe("checked_after_interrupt_in_" + str(p[4]))
                        if p[1] == ABN:
                            probe("checked_after_abandoned_generator_same_obj")
                        if p[0] != tag and p[1] == CHK:
                            probe("option_call_then_other_call")
                        if p[5] != s.get("c"):
                            probe("shared_object_previous_call_by_other_client")
                        # n-gram coverage over the per-kind op alphabet only (pull/close/drain
                        # steps belong to the op that started the generator)
                        alpha = KINDS.get(kind, (0, 0, {}))[2]
                        opl = [q for q in hist_obj if q[0] in alpha]
                        if opl and tag in alpha:
                            q1 = opl[-1]
                            ngrams.add("2|%s|%s|%s" % (kind, q1[0], tag))
                            if p[3] in ("interrupt", "collab_fail") or q1[3] in ("interrupt", "collab_fail"):
                                ngrams.add("F|%s|%s!%s|%s" % (kind, q1[0], p[3] or q1[3], tag))
                            if len(opl) >= 2:
                                ngrams.add("3|%s|%s|%s|%s" % (kind, opl[-2][0], q1[0], tag))
                    sibs = [q for q in prev_any if q[0] == kind and q[1] != oi]
                    if sibs:
                        probe("sibling_instance_of_same_kind_used_before")
            if s["k"] == "make" and plan["objects"][s["slot"]].get("kind") != "attr":
                # (a 'make' of a module-level singleton hands out the same, possibly reconfigured, object)
                eff[s["slot"]] = _nd(plan["objects"][s["slot"]])
                if out[0] == "ok" and not fired:
                    built.add(s["slot"])
                    if s.get("tag") == "make_first":
                        probe("main_or_sibling_constructed_inside_the_schedule")
                unknown.discard(s["slot"])
                reconfd.discard(s["slot"])
            if s.get("reconf"):
                eff2 = list(eff)
                touched = self._apply_reconf(eff2, oi, s["reconf"])
                r0 = plan["objects"][oi]
                if r0.get("kind") == "attr":
                    # two recipes naming one module-level singleton are one object
                    for j, rj in enumerate(plan["objects"]):
                        if j != oi and rj == r0:
                            eff2[j] = eff2[oi]
                            touched.add(j)
                if out[0] == "ok" and not fired:
                    eff = eff2
                    reconfd |= touched
                    probe("reconfigurations_applied")
                elif out[0] == "exc" and not fired:
                    probe("reconfigurations_refused")      # a call that ended in an error changes nothing
                else:
                    unknown |= touched
            fk = flt["kind"] if (flt and fired) else None
            where = out[1] if out[0] == "interrupted" and len(out) > 1 else None
            hist_obj.append((tag, s.get("cls"), out[0], fk, where, s.get("c")))
            prev_any.append((kind, oi))
        fin = by_id.get(-1)
        if fin and fin.get("changed"):
            for sid in fin["changed"]:
                stp = [s for s in plan["steps"] if s["id"] == sid]
                if stp and stp[0].get("cls") == CHK:
                    vs.append(vio("returned_value_changed_later", stp[0].get("kind", "?"), stp[0].get("tag", "?"), sid,
                                  {"steps_whose_result_changed": fin["changed"][:5]}))
                    break
        if plan["meta"].get("shared"):
            probe("runs_with_object_shared_by_clients")
        if plan["meta"].get("twin"):
            probe("runs_with_sibling_" + str(plan["meta"]["twin"]))
        if plan["meta"].get("other_is_relative"):
            probe("runs_with_an_object_of_a_related_kind")
        extra = {"ngrams": sorted(ngrams), "faults": fcount,
                 "fps": sorted(set((plan["meta"].get("kind", "?") + ":" + f) for e in hist for f in e.get("fp", [])))}
        return vs, probes, "|".join(trace), nontrivial, extra

    @staticmethod
    def _apply_reconf(eff, oi, rc):
        """Replace, in eff, the recipe that a successful reconfiguration step changes; returns the
        indices whose recipe changed.  Patches are expressed relative to the step's object (no
        absolute indices), so they survive compaction of a shrunk plan."""
        rec = eff[oi]
        if "recipe" in rc:
            eff[oi] = dict(rc["recipe"])
            return {oi}
        if "via" in rc:
            v = rec.get(rc["via"])
            if isinstance(v, dict) and "obj" in v:
                t = v["obj"]
                while eff[t].get("kind") == "proxy":
                    t = eff[t]["inner"]["obj"]
                eff[t] = _patched(eff[t], rc["set"])
                return {t}
            eff[oi] = _patched(rec, rc["else_set"])
            return {oi}
        eff[oi] = _patched(rec, rc["set"])
        return {oi}

    def totals(self):
        return {"bigrams_total": len(_BI), "trigrams_total": len(_TRI), "fault_bigrams_total": len(_FB), "generator_interleavings_total": len(_GI)}

    # -----------------------------------------------------------------------------------------
    @staticmethod
    def _nullpad_predict(fresh, L, q):
        D = bytes.fromhex(fresh[1]["b"])
        last = D[-L:]
        size = 8 * len(last) - q
        if size < 0:
            return ["exc", "ValueError"]
        nb = (size + 7) // 8
        keep = bytearray(last[:nb])
        if size % 8 and nb:
            keep[-1] &= (0xFF << (8 - size % 8)) & 0xFF
        pred = D[:-L] + bytes(keep) if len(D) >= L else bytes(keep)
        return ["ok", {"b": pred.hex()}]

    def explain_nullpad_dec_orig(self, plan, v):
        """The run as found: the failing step is dec() on an ECB/CBC+Nullpadding object and the
        observed outcome is the fresh outcome with q zero bits stripped, where q is exactly the
        pad count of the last enc() on that object when the object's history before the failing
        step is clean (only successful, un-faulted enc/dec calls), and any multiple of 8 up to
        the block size otherwise (an interrupted enc may or may not have set the count)."""
        steps = plan["steps"]
        fs = [s for s in steps if s["id"] == v["step"]]
        if not fs or fs[0].get("name") != "dec":
            return False
        oi = fs[0].get("obj")
        rec = plan["objects"][oi]
        if rec.get("kind") not in ("ECB", "CBC") or rec.get("pad") != "Nullpadding":
            return False
        cip = plan["objects"][rec["cipher"]["obj"]]
        while cip.get("kind") == "proxy":
            cip = plan["objects"][cip["inner"]["obj"]]
        L = {"AES": 16, "DES": 8, "TDEA": 8, "Serpent": 16}.get(cip["kind"]) or cip.get("blocksize", 0) // 8
        fresh, got = v["detail"]["fresh"], v["detail"]["got"]
        if not L or fresh[0] != "ok" or not isinstance(fresh[1], dict) or "b" not in fresh[1]:
            return False
        outc = plan.get("_outcomes", {})
        before = []
        for s in steps:
            if s["id"] == v["step"]:
                break
            if s.get("obj") == oi:
                before.append(s)
        clean = all(s.get("k") == "call" and s.get("name") in ("enc", "dec") and not s.get("fault")
                    and outc.get(str(s["id"]), ["?"])[0] == "ok" for s in before)
        encs = [s for s in before if s.get("name") == "enc"]
        if clean and encs and isinstance(encs[-1]["args"][0], dict) and ("b" in encs[-1]["args"][0] or "ba" in encs[-1]["args"][0]):
            n = len(encs[-1]["args"][0].get("b", encs[-1]["args"][0].get("ba"))) // 2
            r = n % L
            qs = [8 * L if n == 0 else (0 if r == 0 else 8 * (L - r))]
        else:
            qs = [8 * i for i in range(1, L + 1)]
        return any(got == self._nullpad_predict(fresh, L, q) for q in qs)

    def explain_nullpad_dec(self, plan, v):
        """Known finding C10/nullpadding-dec: a mode object built with Nullpadding strips, in
        dec(), the number of pad bits that the last padding on that object added (its previous
        enc(), or its public pad object driven directly).  True iff the minimised plan is
        '(enc | pad.iterblocks+drain)..., dec' on one such object without faults and the observed
        outcome is exactly what that defect predicts; anything else is reported as new."""
        steps = [s for s in plan["steps"] if not (s.get("k") == "make" and s.get("cls") != BAD)]   # (constructions are not history)
        if len(steps) < 2 or any(s.get("fault") for s in steps):
            return False
        oi = steps[-1].get("obj")
        rec = plan["objects"][oi]
        if rec.get("kind") not in ("ECB", "CBC") or rec.get("pad") != "Nullpadding":
            return False
        # steps on other objects may only be enc calls that provide the ciphertext being decrypted
        if any(s.get("obj") != oi and not (s.get("k") == "call" and s.get("name") == "enc") for s in steps):
            return False
        if steps[-1].get("name") != "dec" or steps[-1]["id"] != v["step"]:
            return False
        steps = [s for s in steps if s.get("obj") == oi]
        # what padded last on this object: an enc(M), or the (public) pad object driven directly
        # over M and drained; nothing else may appear in the minimal history
        m = None
        for i, st in enumerate(steps[:-1]):
            if st.get("k") == "call" and st.get("name") == "enc":
                m = st["args"][0]
            elif st.get("k") == "call" and st.get("name") == "pad.iterblocks":
                nxt = steps[i + 1] if i + 1 < len(steps) - 1 else None
                if not (nxt and nxt.get("k") == "drain" and nxt.get("gen") == st["id"]):
                    return False
                m = st["args"][0]
            elif st.get("k") == "drain":
                continue
            else:
                return False
        if not (isinstance(m, dict) and ("b" in m or "ba" in m)):
            return False
        n = len(m.get("b", m.get("ba"))) // 2
        cip = plan["objects"][rec["cipher"]["obj"]]
        while cip.get("kind") == "proxy":
            cip = plan["objects"][cip["inner"]["obj"]]
        L = {"AES": 16, "DES": 8, "TDEA": 8, "Serpent": 16}.get(cip["kind"]) or cip.get("blocksize", 0) // 8
        if not L:
            return False
        r = n % L
        q = 8 * L if n == 0 else (0 if r == 0 else 8 * (L - r))
        fresh, got = v["detail"]["fresh"], v["detail"]["got"]
        if fresh[0] != "ok" or not isinstance(fresh[1], dict) or "b" not in fresh[1]:
            return False
        D = bytes.fromhex(fresh[1]["b"])
        last = D[-L:]
        size = 8 * len(last) - q
        if size < 0:
            return got == ["exc", "ValueError"]
        nb = (size + 7) // 8
        keep = bytearray(last[:nb])
        if size % 8 and nb:
            keep[-1] &= (0xFF << (8 - size % 8)) & 0xFF
        pred = D[:-L] + bytes(keep) if len(D) >= L else bytes(keep)
        return got == ["ok", {"b": pred.hex()}]
