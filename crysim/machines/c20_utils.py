"""C20 (history clauses) - permutation and subset-sum helpers are independent of earlier calls,
and the permutation generator leaves the list as it found it.

1-3 clients: eager calls (list(permutk), nextperm, list(combink), exactsum, dynprog) on private
lists, generators pulled part-way and abandoned, generators of different clients over DIFFERENT
lists interleaved at pull granularity.  Oracle: pristine child for results; for permutk also the
itertools model and 'list unchanged after exhaustion'.  Fault: abandon.
"""
import itertools

from ..plan import PlanBuilder
from .common import Machine, vio

P = "crysp.utils.perms."
K = "crysp.utils.knapsack."


def rlist(rng, allow_rep=True):
    n = rng.choice([0, 1, 2, 3, 3, 4, 4, 5, 6, 7])
    if allow_rep and rng.random() < 0.35:
        return [rng.randint(0, 2) for _ in range(n)]
    l = list(range(n))
    rng.shuffle(l)
    return l


def ritems(rng):
    n = rng.choice([0, 1, 2, 3, 4, 5, 6, 8, 9])
    return [{"t": [{"s": "i%d" % i}, rng.randint(1, 9)]} for i in range(n)]


class C20(Machine):
    prop = "C20"
    title = "permutation / subset-sum helpers: history clauses"
    runs = (6000, 300000)
    components = {"real": ["crysp.utils.perms permutk/nextperm/combink", "crysp.utils.knapsack exactsum/dynprog"],
                  "stub": ["itertools.permutations as the model of the permutation multiset"]}
    rule = ("one evaluation = one simulated run: 1-3 clients issue eager calls (list(permutk(l,k)), nextperm(l), "
            "list(combink(l,p,0)), exactsum(l,s), dynprog(l,s), each twice or after other helpers ran) and drive permutk/"
            "combink generators one pull at a time, some abandoned part-way, interleaved with generators of other clients over "
            "different lists; every eagerly consumed result is compared with the same call in a pristine process, permutk "
            "results with the itertools multiset, and the list with its original after exhaustion. distinct = distinct abstract "
            "traces ((client, helper, list-length/repeat class, pulls/abandon) in schedule order); non-trivial = a judged call "
            "preceded by at least one other helper call or generator step")
    assumptions = ["what a generator yields is only judged when it iterates over a list that no other generator or call uses",
                   "combink/dynprog raise TypeError on Python 3 for most inputs in a pristine process too; their history clauses "
                   "then hold vacuously and the input-quantified clauses (which they fail) are not decided here"]

    def gen(self, rng, idx, seed):
        pb = PlanBuilder(self.prop, seed, idx)
        fn = {n: pb.obj({"kind": "attr", "path": p + n}) for n, p in
              (("permutk", P), ("nextperm", P), ("combink", P), ("exactsum", K), ("dynprog", K))}
        meta = {"fn": {k: v for k, v in fn.items()}, "lists": {}, "gens": []}
        nclients = rng.choice([1, 2, 2, 3])
        repeat_pool = []
        for ci in range(nclients):
            c = pb.client()
            for _ in range(rng.randint(2, 5)):
                op = rng.choice(["permutk", "permutk_gen", "permutk_abandon", "nextperm", "combink", "combink_gen",
                                 "exactsum", "exactsum", "exactsum", "dynprog", "repeat", "permutk_reenum"])
                if op == "permutk_reenum":
                    # one consumer: abandons an enumeration of L part-way (keeps the generator), later
                    # enumerates the same L completely; the abandoned generator is closed before, in
                    # the middle of, or after the second enumeration
                    l = rlist(rng)
                    while len(l) < 3:
                        l = rlist(rng)
                    k = rng.choice([0, 0, 1])
                    lo = pb.obj({"kind": "value", "val": list(l)})
                    meta["lists"][str(lo)] = list(l)
                    pb.plan["observe"].append([lo, ""])
                    total = 1
                    for i in range(2, len(l) - k + 1):
                        total *= i
                    g1 = pb.step(c, k="call", obj=fn["permutk"], name="__call__", args=[{"obj": lo}, k], kw={}, tag="reenum_first", role="re_first", lst=lo, fname="permutk")
                    for _ in range(rng.randint(1, min(total - 1, 4))):
                        pb.step(c, k="pull", gen=g1, n=1, tag="pull", role="re_pull1", obj=fn["permutk"], lst=lo)
                    when = rng.choice(["before", "middle", "after", "never"])
                    rec = {"first": g1, "lst": lo, "k2": rng.choice([0, 0, 1]), "when": when, "pulls2": [], "close": None}
                    if when == "before":
                        rec["close"] = pb.step(c, k="close", gen=g1, tag="close_first", role="re_close", obj=fn["permutk"], lst=lo)
                    tot2 = 1
                    for i in range(2, len(l) - rec["k2"] + 1):
                        tot2 *= i
                    if tot2 <= 24:
                        g2 = pb.step(c, k="call", obj=fn["permutk"], name="__call__", args=[{"obj": lo}, rec["k2"]], kw={}, tag="reenum_second", role="re_second", lst=lo, fname="permutk")
                        rec["second"] = g2
                        mid = rng.randint(1, tot2) if when == "middle" else None
                        for j in range(tot2 + 1):
                            if mid is not None and j == mid:
                                rec["close"] = pb.step(c, k="close", gen=g1, tag="close_first", role="re_close", obj=fn["permutk"], lst=lo)
                            rec["pulls2"].append(pb.step(c, k="pull", gen=g2, n=1, tag="pull", role="re_pull2", obj=fn["permutk"], lst=lo))
                    else:
                        rec["second"] = pb.step(c, k="call", obj=fn["permutk"], name="__call__", args=[{"obj": lo}, rec["k2"]], kw={}, post="list",
                                                tag="reenum_second_eager", role="re_second_eager", lst=lo, fname="permutk")
                    if when == "after":
                        rec["close"] = pb.step(c, k="close", gen=g1, tag="close_first", role="re_close", obj=fn["permutk"], lst=lo)
                    meta.setdefault("reenum", []).append(rec)
                    continue
                if op == "repeat" and repeat_pool:
                    name, args = rng.choice(repeat_pool)
                    ex = {"post": "list"} if name == "combink" else {}
                    if args and isinstance(args[0], dict) and "obj" in args[0]:
                        ex["lst"] = args[0]["obj"]
                        if name in ("exactsum", "dynprog") and rng.random() < 0.35:
                            # the caller edits its list (replaces / appends an item) before asking again
                            lo_ = args[0]["obj"]
                            cur_ = list(meta.setdefault("cur", {}).get(str(lo_), meta["lists"][str(lo_)]))
                            newitem = {"t": [{"s": "x%d" % len(cur_)}, rng.randint(1, 9)]}
                            if cur_ and rng.random() < 0.5:
                                cur_[rng.randrange(len(cur_))] = newitem
                            else:
                                cur_.append(newitem)
                            meta["cur"][str(lo_)] = cur_
                            pb.step(c, k="mutate", obj=lo_, val=cur_, tag="edit_list", role="env")
                            tot_ = sum(i["t"][1] for i in cur_)
                            args = [args[0], rng.choice([tot_, rng.randint(0, tot_), args[1]])]
                        elif name in ("exactsum", "dynprog") and rng.random() < 0.6:
                            # the same list object, another target
                            items0 = meta["lists"][str(args[0]["obj"])]
                            tot0 = sum(i["t"][1] for i in items0)
                            args = [args[0], rng.choice([tot0, max(0, tot0 - 1), rng.randint(0, tot0 + 1), args[1] + 1])]
                            if rng.random() < 0.5:
                                name = rng.choice(["exactsum", "dynprog"])
                    pb.step(c, k="call", obj=fn[name], name="__call__", args=args, kw={}, tag=name + ":again", role="eager", fname=name, **ex)
                    continue
                if op == "repeat":
                    op = "exactsum"
                if op.startswith("permutk"):
                    l = rlist(rng)
                    k = rng.randint(0, len(l)) if rng.random() < 0.6 else 0
                    lo = pb.obj({"kind": "value", "val": list(l)})
                    meta["lists"][str(lo)] = list(l)
                    pb.plan["observe"].append([lo, ""])
                    cls = "n%d%s" % (len(l), "r" if len(set(l)) < len(l) else "")
                    if op == "permutk":
                        pb.step(c, k="call", obj=fn["permutk"], name="__call__", args=[{"obj": lo}, k], kw={}, post="list",
                                tag="permutk:" + cls, role="eager_permutk", lst=lo, kk=k, fname="permutk")
                    else:
                        total = 1
                        for i in range(2, len(l) - k + 1):
                            total *= i
                        g = pb.step(c, k="call", obj=fn["permutk"], name="__call__", args=[{"obj": lo}, k], kw={},
                                    tag="permutk_gen:" + cls, role="gen_start", lst=lo, kk=k, fname="permutk")
                        abandon = op == "permutk_abandon" and total > 1
                        npull = rng.randint(1, max(1, total - 1)) if abandon else total + 1
                        npull = min(npull, 30)
                        pulls = []
                        scrib = rng.random() < 0.35      # this consumer edits the arrangements it is handed
                        for _ in range(npull):
                            pulls.append(pb.step(c, k="pull", gen=g, n=1, tag="pull", role="pull", obj=fn["permutk"]))
                            if scrib and rng.random() < 0.5:
                                pb.step(c, k="mutate_result", ref=pulls[-1], item=0, how=rng.choice(["swap", "reverse", "clear"]),
                                        tag="scribble_yielded", role="env", obj=fn["permutk"])
                        if abandon and rng.random() < 0.5:
                            pb.step(c, k="close", gen=g, tag="close", role="close", obj=fn["permutk"])
                        meta["gens"].append({"start": g, "pulls": pulls, "lst": lo, "k": k, "abandoned": abandon or npull < total + 1})
                elif op == "nextperm":
                    l = rlist(rng)
                    args = [list(l)]
                    nid = pb.step(c, k="call", obj=fn["nextperm"], name="__call__", args=args, kw={}, tag="nextperm:n%d" % len(l), role="eager", fname="nextperm")
                    repeat_pool.append(("nextperm", args))
                    if rng.random() < 0.3:
                        # the caller scribbles on the list it was handed, then asks the same question again
                        pb.step(c, k="mutate_result", ref=nid, tag="scribble", role="env", obj=fn["nextperm"])
                        pb.step(c, k="call", obj=fn["nextperm"], name="__call__", args=args, kw={}, tag="nextperm:again", role="eager", fname="nextperm")
                elif op.startswith("combink"):
                    l = rlist(rng, False)
                    p = rng.randint(1, max(1, len(l)))
                    args = [list(l), p, 0]
                    if op == "combink":
                        pb.step(c, k="call", obj=fn["combink"], name="__call__", args=args, kw={}, post="list", tag="combink:n%d" % len(l), role="eager", fname="combink")
                        repeat_pool.append(("combink", args))
                    else:
                        g = pb.step(c, k="call", obj=fn["combink"], name="__call__", args=args, kw={}, tag="combink_gen", role="gen_other", fname="combink")
                        pb.step(c, k="pull", gen=g, n=1, tag="pull", role="pull_other", obj=fn["combink"])
                else:
                    items = ritems(rng)
                    tot = sum(i["t"][1] for i in items)
                    s = rng.choice([0, 1, tot, max(0, tot - 1), rng.randint(0, tot + 1), rng.randint(0, tot + 1)])
                    args = [items, s]
                    extra = {}
                    if rng.random() < 0.5:
                        # the caller keeps ONE list object and passes it again later: a helper that
                        # reorders or consumes its argument makes the repeated call differ
                        lo = pb.obj({"kind": "value", "val": items})
                        meta["lists"][str(lo)] = items
                        pb.plan["observe"].append([lo, ""])
                        args = [{"obj": lo}, s]
                        extra = {"lst": lo}
                    eid = pb.step(c, k="call", obj=fn[op], name="__call__", args=args, kw={}, tag="%s:n%d" % (op, len(items)), role="eager", fname=op, **extra)
                    repeat_pool.append((op, args))
                    if rng.random() < 0.2:
                        pb.step(c, k="mutate_result", ref=eid, tag="scribble", role="env", obj=fn[op])
                    if rng.random() < 0.5:
                        pb.step(c, k="call", obj=fn[op], name="__call__", args=args, kw={}, tag=op + ":again", role="eager", fname=op, **extra)
        plan = pb.finish(rng)
        plan["meta"].update(meta)
        plan["recheck_results"] = True
        return plan

    def check(self, plan, hist, oracle):
        by_id = {e["id"]: e for e in hist}
        meta = plan["meta"]
        obs_pos = {o: j for j, (o, _) in enumerate(plan.get("observe", []))}
        vs = []
        probes = {}

        def probe(n, k=1):
            probes[n] = probes.get(n, 0) + k
        trace = []
        seen_any = False
        nontrivial = False
        fcount = {"abandon": [0, 0]}
        seen_calls = {}
        cur_lists = {}
        for s in plan["steps"]:
            e = by_id[s["id"]]
            trace.append("%d:%s" % (s.get("c", 0), s.get("tag")))
            role = s.get("role")
            if s.get("k") == "mutate" and role == "env":
                cur_lists[str(s["obj"])] = s["val"]
                continue
            if role in ("eager", "eager_permutk"):
                fname = s["fname"]
                args = s["args"]
                objects = [plan["objects"][s["obj"]]]
                margs = args
                if role == "eager_permutk":
                    orig = meta["lists"][str(s["lst"])]
                    objects.append({"kind": "value", "val": list(orig)})
                    margs = [{"obj": 1}, s["kk"]]
                elif "lst" in s:
                    # the pristine twin gets the list as the caller first built it
                    objects.append({"kind": "value", "val": cur_lists.get(str(s["lst"]), meta["lists"][str(s["lst"])])})
                    margs = [{"obj": 1}] + list(args[1:])
                    probe("call_on_a_list_object_the_caller_keeps")
                mini = {"objects": objects, "steps": [{"id": 1, "k": "call", "obj": 0, "name": "__call__", "args": margs,
                        "kw": {}, **({"post": "list"} if s.get("post") else {})}], "observe": [], "fp": []}
                exp = oracle.ask(mini)[0]["out"]
                bad = (exp[0] == "ok" and e["out"] != exp) or (exp[0] == "exc" and e["out"][0] == "ok")
                if bad:
                    vs.append(vio("differs_from_pristine", fname, s.get("tag", "").split(":")[0], s["id"],
                                  {"got": repr(e["out"])[:200], "pristine": repr(exp)[:200], "args": repr(args)[:120]}))
                key = fname + repr(args) + repr(cur_lists.get(str(s.get("lst")))) 
                if key in seen_calls and role == "eager":
                    probe("repeated_identical_call")
                    if seen_calls[key] != e["out"] and fname in ("exactsum", "dynprog"):
                        vs.append(vio("repeated_call_differs", fname, "again", s["id"],
                                      {"first": repr(seen_calls[key])[:150], "now": repr(e["out"])[:150]}))
                seen_calls.setdefault(key, e["out"])
                probe("judged_eager_calls")
                if exp[0] == "exc":
                    probe("pristine_raises_too_" + fname)
                if seen_any:
                    nontrivial = True
                if role == "eager_permutk" and e["out"][0] == "ok":
                    orig = meta["lists"][str(s["lst"])]
                    kk = s["kk"]
                    model = sorted(orig[:kk] + list(p) for p in itertools.permutations(orig[kk:]))
                    if sorted(e["out"][1]) != model:
                        vs.append(vio("permutk_multiset", "permutk", "permutk", s["id"], {"list": orig, "k": kk, "n_got": len(e["out"][1]), "n_model": len(model)}))
                    after = e["obs"][obs_pos[s["lst"]]]
                    if after != orig:
                        vs.append(vio("permutk_list_not_restored", "permutk", "permutk", s["id"], {"list": orig, "after": after, "k": kk}))
            seen_any = True
        for g in meta.get("gens", []):
            ids = [g["start"]] + g["pulls"]
            if any(i not in by_id for i in ids):
                continue
            orig = meta["lists"][str(g["lst"])]
            kk = g["k"]
            got = []
            stopped = False
            err = None
            for pid in g["pulls"]:
                out = by_id[pid]["out"]
                if out[0] != "ok":
                    err = out
                    break
                item = out[1][0]
                if item == {"stop": 1}:
                    stopped = True
                    break
                got.append(item)
            if g["abandoned"]:
                fcount["abandon"][0] += 1
                fcount["abandon"][1] += 1
                probe("generator_abandoned_part_way")
            model = sorted(orig[:kk] + list(p) for p in itertools.permutations(orig[kk:]))
            if err is not None:
                vs.append(vio("generator_error", "permutk", "pull", g["pulls"][len(got)], {"got": err, "list": orig, "k": kk}))
                continue
            # every yielded arrangement must be one of the model's, with the right multiplicity
            rest = list(model)
            ok = True
            for it in got:
                if it in rest:
                    rest.remove(it)
                else:
                    ok = False
                    break
            if not ok or (stopped and rest):
                vs.append(vio("interleaved_generator", "permutk", "pull", g["pulls"][min(len(got), len(g["pulls"]) - 1)],
                              {"list": orig, "k": kk, "yielded": len(got), "model": len(model), "stopped": stopped}))
            if stopped:
                last = by_id[g["pulls"][len(got)]]
                after = last["obs"][obs_pos[g["lst"]]]
                if after != orig:
                    vs.append(vio("permutk_list_not_restored", "permutk", "pull", g["pulls"][len(got)], {"list": orig, "after": after, "k": kk}))
                probe("generator_drained_one_pull_at_a_time")
                lo, hi = [i for i, s in enumerate(plan["steps"]) if s["id"] in (g["start"], g["pulls"][len(got)])]
                if any(s.get("c") != plan["steps"][lo].get("c") for s in plan["steps"][lo:hi]):
                    probe("other_client_ran_while_generator_suspended")
                    nontrivial = True
        order_ = {t["id"]: i for i, t in enumerate(plan["steps"])}
        for rec in meta.get("reenum", []):
            ids = [rec["first"], rec["second"]] + rec["pulls2"] + ([rec["close"]] if rec["close"] else [])
            if any(i not in by_id for i in ids):
                continue
            lo = rec["lst"]
            pos2 = order_[rec["second"]]
            # content of the list when the second enumeration starts = what was observed just before
            prev = hist[pos2 - 1] if pos2 > 0 else None
            start = prev["obs"][obs_pos[lo]] if prev is not None and "obs" in prev else meta["lists"][str(lo)]
            kk = rec["k2"]
            model = sorted(start[:kk] + list(p) for p in itertools.permutations(start[kk:]))
            probe("reenumeration_after_abandoned_generator")
            if rec["pulls2"]:
                got = []
                stopped = False
                bad_out = None
                for pid in rec["pulls2"]:
                    out = by_id[pid]["out"]
                    if out[0] != "ok":
                        bad_out = out
                        break
                    if out[1][0] == {"stop": 1}:
                        stopped = True
                        break
                    got.append(out[1][0])
                last_id = rec["pulls2"][min(len(got), len(rec["pulls2"]) - 1)]
                if bad_out is not None or sorted(got) != model or not stopped:
                    vs.append(vio("reenumeration_multiset", "permutk", "pull", last_id,
                                  {"start": start, "k": kk, "yielded": len(got), "model": len(model), "error": bad_out, "closed_first": rec["when"]}))
                    continue
                after = by_id[last_id]["obs"][obs_pos[lo]]
            else:
                e2 = by_id[rec["second"]]
                if e2["out"][0] != "ok" or sorted(e2["out"][1]) != model:
                    vs.append(vio("reenumeration_multiset", "permutk", "permutk", rec["second"],
                                  {"start": start, "k": kk, "got": repr(e2["out"])[:120], "model": len(model), "closed_first": rec["when"]}))
                    continue
                after = e2["obs"][obs_pos[lo]]
            if after != start:
                vs.append(vio("permutk_list_not_restored", "permutk", "reenum", rec["second"], {"start": start, "after": after, "closed_first": rec["when"]}))
                continue
            if rec["close"] and order_[rec["close"]] > order_[rec["second"]] and rec["when"] == "after":
                endl = by_id[rec["close"]]["obs"][obs_pos[lo]]
                if endl != start:
                    vs.append(vio("list_changed_by_closing_abandoned_generator", "permutk", "close", rec["close"], {"start": start, "after_close": endl}))
        fin = by_id.get(-1)
        if fin and fin.get("changed"):
            # nextperm returns its (mutated) argument by design: a later change of that is the caller's doing
            scribbled = set(t.get("ref") for t in plan["steps"] if t.get("k") == "mutate_result")
            for sid in fin["changed"]:
                if sid in scribbled:
                    continue
                stp = [s for s in plan["steps"] if s["id"] == sid]
                if stp and (stp[0].get("fname") in ("permutk", "exactsum", "dynprog", "combink") or stp[0].get("role") == "pull"):
                    if "lst" in stp[0] and stp[0].get("fname") in ("exactsum", "dynprog"):
                        continue      # results of calls on a caller-kept list are compared call by call
                    vs.append(vio("returned_value_changed_later", stp[0].get("fname", "permutk"), stp[0].get("tag", "?").split(":")[0], sid,
                                  {"steps_whose_result_changed": fin["changed"][:5]}))
                    break
        extra = {"faults": fcount, "fps": []}
        return vs, probes, "|".join(trace), nontrivial, extra
