"""C08 (mutation sequences / aliases / operands unchanged) - a shared heap of Bits vectors worked
by 1-3 cooperative clients; the scheduler decides who mutates which vector between whose reads.

The plan gives every operation *symbolically* (handle choice and index material as random
integers); the executor concretises them against the actual sizes at that instant (so only
operations valid for the current vector are issued), performs them on real crysp Bits objects and
records, after every step, the concrete arguments, the result, a snapshot (ival,size,mask) of every
live handle and the identity partition of the handles.  The checker replays the recorded concrete
operations on models/bits_ref.py with *intended* alias classes (bind = alias; zero/sign extension:
whatever the implementation chose, read off with `is`; every operator result: fresh) and demands
after every step that every live handle equals its model cell and 0 <= ival <= mask == 2**size-1.
"""
from ..models import bits_ref as R
from ..plan import PlanBuilder
from .common import Machine, vio

NH = 6
WIDTHS = [0, 1, 2, 3, 4, 5, 6] * 6 + [7, 8, 9, 15, 16, 17, 31, 32, 33, 63, 64, 65] * 2 + [127, 128, 129, 255, 256, 1023, 1024, 2047, 2048]
BINOPS = ["+", "-", "&", "|", "^"]


def rwidth(rng):
    """widths 0-6 densely, word boundaries, and (one in five) anything up to 2100"""
    return rng.randint(0, 2100) if rng.random() < 0.2 else rng.choice(WIDTHS)


def rval(rng, w):
    """payload of a new vector: random, and now and then all zeros / all ones / a single bit"""
    if not w:
        return 0
    r = rng.random()
    if r < 0.10:
        return 0
    if r < 0.15:
        return (1 << w) - 1
    if r < 0.20:
        return 1 << rng.randrange(w)
    return rng.getrandbits(w)


def rint(rng):
    return rng.getrandbits(32)


def small_int(rng):
    r = rng.random()
    if r < 0.3:
        return rng.randint(0, 3)
    if r < 0.7:
        return rng.getrandbits(rng.choice([3, 5, 8, 9, 16]))
    return rng.getrandbits(rng.choice([33, 64, 65, 130]))


# ---------------------------------------------------------------------------------------------
# executor (runs in the forked child)
def c08_exec(plan):
    import sys
    Bits = sys.modules["crysp.bits"].Bits
    ops_mod = sys.modules["crysp.utils.operators"]
    H = [None] * NH
    events = []

    def snap():
        s = []
        ids = {}
        part = []
        for h in H:
            if h is None:
                s.append(None)
                part.append(-1)
            else:
                s.append([h.ival, h.size, h.mask])
                part.append(ids.setdefault(id(h), len(ids)))
        return s, part

    def live():
        return [i for i in range(NH) if H[i] is not None]

    def pick(u, need=None):
        l = [i for i in live() if need is None or need(H[i])]
        return l[u % len(l)] if l else None

    def cv(x):
        if isinstance(x, Bits):
            return {"bits": [x.ival, x.size]}
        if isinstance(x, list):
            return [cv(i) for i in x]
        return x

    def selection(u, n):
        """-> (python index expression as JSON, list of selected indices) using plain python slicing"""
        m = u[0] % 7
        a, b = sorted((u[1] % (n + 1), u[2] % (n + 1)))
        st = 2 + u[3] % 3
        if m == 0:
            sl = (a, b, None)
        elif m == 1:
            sl = (a - n if (n and a < n) else a, b - n if (n and 0 < b < n) else b, None)
        elif m == 2:
            sl = (a, None, None) if u[3] & 1 else (None, b, None)
        elif m == 3:
            sl = (a, b, st)
        elif m == 4:
            sl = (b, a, -(1 + u[3] % 3)) if b > 0 else (None, None, -1)
        elif m == 5:
            sl = (a, b + 5, None) if u[3] & 1 else (-n - 3, b, None)
        else:
            sl = (None, None, None) if u[3] & 1 else (None, None, -1)
        idx = list(range(n))[slice(*sl)]
        return list(sl), idx

    def rhs_for(spec, L, contiguous):
        """value to assign to a selection of L bits -> (python value, JSON description, model bits)"""
        kind = spec["kind"]
        val = spec["seed"] & ((1 << L) - 1) if L else 0
        if kind == "list":
            bits = R.bits_of(val, L)
            return list(bits), {"list": bits}, bits
        if kind == "bits":
            return Bits(val, L), {"bits": [val, L]}, R.bits_of(val, L)
        if kind == "shortint" and contiguous and L > 0:
            return val, {"int": val}, R.bits_of(val, L)
        if kind == "handle":
            i = pick(spec["seed"], lambda o: o.size == L)
            if i is not None:
                return H[i], {"handle": i}, R.bits_of(H[i].ival, L)
        if L > 0:
            val |= 1 << (L - 1)          # int whose bit_length is exactly L
        return val, {"int": val}, R.bits_of(val, L)

    for s in plan["steps"]:
        op = s["op"]
        u = s.get("u", [0, 0, 0, 0, 0])
        ev = {"id": s["id"], "op": op}
        before_snap, before_part = snap()
        ev["pre"] = before_snap
        try:
            res = None
            if op == "new":
                val, size, src = s["val"], s["size"], s.get("src", "int")
                if src == "bytes" and size % 8:
                    src = "list"
                ev["a"] = {"dst": s["dst"], "val": val, "size": size, "src": src}
                if src == "list":
                    H[s["dst"]] = Bits(R.bits_of(val, size))
                elif src == "bytes":
                    H[s["dst"]] = Bits(R.to_bytes((val, size)))
                else:
                    H[s["dst"]] = Bits(val, size)
            elif op in ("copy", "bind"):
                i = pick(u[0])
                if i is None:
                    raise _Skip()
                H[s["dst"]] = Bits(H[i]) if op == "copy" else H[i]
                ev["a"] = {"dst": s["dst"], "src": i}
            elif op in ("setbit", "getbit"):
                i = pick(u[0], lambda o: o.size > 0)
                if i is None:
                    raise _Skip()
                n = H[i].size
                k = u[1] % n
                if u[2] & 1:
                    k -= n
                if op == "setbit":
                    v = (u[2] >> 1) & 1
                    vk = ("int", "bits", "bool", "bit_of_self")[(u[2] >> 2) % 4]
                    if vk == "bit_of_self":
                        j0 = u[3] % n
                        v = (H[i].ival >> j0) & 1
                        val = H[i][j0]
                    else:
                        val = Bits(v, 1) if vk == "bits" else (bool(v) if vk == "bool" else v)
                    ev["a"] = {"h": i, "i": k, "v": v, "vkind": vk}
                    H[i][k] = val
                else:
                    ev["a"] = {"h": i, "i": k, "dst": s.get("dst")}
                    res = H[i][k]
                    if s.get("dst") is not None:
                        H[s["dst"]] = res
            elif op == "setbit_oob":
                # fault kind bad_call: a single-bit assignment at an index that addresses no bit of the
                # vector (size, size+1, .., -(size+1), ..).  Refused or not, nothing may change.
                i = pick(u[0])
                if i is None:
                    raise _Skip()
                n = H[i].size
                k = (n + u[1] % 3) if not (u[2] & 1) else -(n + 1 + u[1] % 3)
                v = (u[2] >> 1) & 1
                ev["a"] = {"h": i, "i": k, "v": v, "raised": None}
                try:
                    H[i][k] = v
                except Exception as e:
                    ev["a"]["raised"] = type(e).__name__
            elif op in ("setslice", "getslice"):
                i = pick(u[0])
                if i is None:
                    raise _Skip()
                sl, idx = selection(u[1:5], H[i].size)
                contiguous = (sl[2] is None) and len(idx) > 0
                if op == "setslice":
                    val, desc, bits = rhs_for(s["rhs"], len(idx), contiguous)
                    ev["a"] = {"h": i, "slice": sl, "idx": idx, "rhs": desc, "bits": bits}
                    H[i][slice(*sl)] = val
                else:
                    ev["a"] = {"h": i, "slice": sl, "idx": idx, "dst": s.get("dst")}
                    res = H[i][slice(*sl)]
                    if s.get("dst") is not None:
                        H[s["dst"]] = res
            elif op in ("setlist", "getlist"):
                i = pick(u[0], lambda o: o.size > 0)
                if i is None:
                    raise _Skip()
                n = H[i].size
                k = 1 + u[1] % 4
                idx = [(u[2] >> (5 * j)) % n if j % 2 == 0 else (u[3] >> (5 * j)) % n for j in range(k)]
                if op == "setlist":
                    val, desc, bits = rhs_for(s["rhs"], len(idx), False)
                    if (u[4] & 3) == 0:
                        # from-the-end positions in the caller's index list (assignment only: reading through a
                        # list with negative entries is not supported by the library)
                        idx = [(x - n) if ((u[4] >> (2 + j)) & 1) else x for j, x in enumerate(idx)]
                    lst = list(idx)
                    ev["a"] = {"h": i, "idx": idx, "rhs": desc, "bits": bits}
                    H[i][lst] = val
                    ev["a"]["idx_after"] = list(lst)      # the caller's list object after the call
                else:
                    ev["a"] = {"h": i, "idx": idx, "dst": s.get("dst")}
                    res = H[i][list(idx)]
                    if s.get("dst") is not None:
                        H[s["dst"]] = res
            elif op == "setsize":
                i = pick(u[0])
                if i is None:
                    raise _Skip()
                nsz = s["size"] if s.get("rel") is None else max(0, H[i].size + s["rel"])
                ev["a"] = {"h": i, "size": nsz}
                H[i].size = nsz
            elif op in ("zeroextend", "signextend", "extend"):
                i = pick(u[0], (lambda o: o.size > 0) if op != "zeroextend" else None)
                if i is None:
                    raise _Skip()
                nsz = s["size"] if s.get("rel") is None else max(0, H[i].size + s["rel"])
                ev["a"] = {"h": i, "size": nsz}
                if op == "zeroextend":
                    r = H[i].zeroextend(nsz)
                    sign = False
                elif op == "signextend":
                    r = H[i].signextend(nsz)
                    sign = True
                else:
                    sign = bool(u[1] & 1)
                    r = H[i].extend(sign, nsz)
                ev["a"] = {"h": i, "size": nsz, "sign": sign, "dst": s.get("dst"), "same": r is H[i]}
                if s.get("dst") is not None:
                    H[s["dst"]] = r
                res = r
            elif op in ("binop", "aug"):
                i = pick(u[0])
                if i is None:
                    raise _Skip()
                o = s["operator"]
                if s.get("other") == "handle":
                    j = pick(u[1])
                    other, od = H[j], {"handle": j}
                else:
                    other, od = s["int"], {"int": s["int"]}
                left_int = bool(s.get("left_int")) and "int" in od and op == "binop"
                x, y = (other, H[i]) if left_int else (H[i], other)
                dst = i if op == "aug" else s["dst"]
                ev["a"] = {"h": i, "operator": o, "other": od, "left_int": left_int, "dst": dst}
                if op == "aug":
                    # 'x op= y' exactly as Python executes it (uses __iadd__ & co. if the class has them)
                    import operator as _op
                    r = {"+": _op.iadd, "-": _op.isub, "&": _op.iand, "|": _op.ior, "^": _op.ixor}[o](x, y)
                elif o == "+":
                    r = x + y
                elif o == "-":
                    r = x - y
                elif o == "&":
                    r = x & y
                elif o == "|":
                    r = x | y
                else:
                    r = x ^ y
                H[dst] = r
                res = r
            elif op == "mul":
                i = pick(u[0])
                if i is None:
                    raise _Skip()
                if s.get("other") == "handle":
                    j = pick(u[1])
                    other, od = H[j], {"handle": j}
                else:
                    other, od = s["int"], {"int": s["int"]}
                ev["a"] = {"h": i, "other": od, "dst": s["dst"]}
                r = H[i] * other
                H[s["dst"]] = r
                res = r
            elif op == "unary":
                i = pick(u[0])
                if i is None:
                    raise _Skip()
                ev["a"] = {"h": i, "operator": s["operator"], "dst": s["dst"]}
                r = ~H[i] if s["operator"] == "~" else -H[i]
                H[s["dst"]] = r
                res = r
            elif op == "shift":
                i = pick(u[0])
                if i is None:
                    raise _Skip()
                k = u[1] % (H[i].size + 3)
                if u[2] % 7 == 0:
                    k += 2 * H[i].size + (u[3] % 70)       # far beyond the size
                ev["a"] = {"h": i, "operator": s["operator"], "k": k, "dst": s["dst"]}
                r = (H[i] << k) if s["operator"] == "<<" else (H[i] >> k)
                H[s["dst"]] = r
                res = r
            elif op == "rot":
                i = pick(u[0], lambda o: o.size > 0)
                if i is None:
                    raise _Skip()
                k = u[1] % (H[i].size + 1)
                ev["a"] = {"h": i, "operator": s["operator"], "k": k, "dst": s["dst"]}
                r = ops_mod.rol(H[i], k) if s["operator"] == "rol" else ops_mod.ror(H[i], k)
                H[s["dst"]] = r
                res = r
            elif op == "concat":
                i = pick(u[0])
                if i is None:
                    raise _Skip()
                if s.get("other") == "handle":
                    j = pick(u[1])
                    other, od = H[j], {"handle": j}
                else:
                    other, od = s["int"], {"int": s["int"]}
                osz = other.size if isinstance(other, Bits) else int(other).bit_length()
                if H[i].size + osz > 8192:
                    raise _Skip()          # keep concatenation chains bounded
                ev["a"] = {"h": i, "other": od, "dst": s["dst"]}
                r = H[i] // other
                H[s["dst"]] = r
                res = r
            elif op == "split":
                i = pick(u[0])
                if i is None:
                    raise _Skip()
                k = 1 + u[1] % max(1, H[i].size)
                ev["a"] = {"h": i, "k": k}
                res = H[i].split(k)
                ev["a"] = {"h": i, "k": k, "dst": s.get("dst") if res else None, "piece": (u[2] % len(res)) if res else None}
                if res and s.get("dst") is not None:
                    H[s["dst"]] = res[u[2] % len(res)]
                    if s.get("dst2") is not None and len(res) > 1 and s["dst2"] != s["dst"]:
                        # a second piece of the same split is kept too (the pieces must be separate vectors)
                        p2 = (u[2] + 1 + u[3] % (len(res) - 1)) % len(res)
                        H[s["dst2"]] = res[p2]
                        ev["a"]["dst2"], ev["a"]["piece2"] = s["dst2"], p2
            elif op == "hd":
                i = pick(u[0])
                if i is None:
                    raise _Skip()
                j = pick(u[1], lambda o: o.size == H[i].size)
                ev["a"] = {"h": i, "other": {"handle": j}}
                res = H[i].hd(H[j])
            elif op in ("int", "sint", "str", "iter", "hw", "bytes", "bitlist_rev", "contains1", "first"):
                i = pick(u[0], (lambda o: o.size > 0) if op in ("sint", "first") else None)
                if i is None:
                    raise _Skip()
                ev["a"] = {"h": i}
                if op == "int":
                    res = int(H[i])
                elif op == "sint":
                    res = H[i].int(-1)
                elif op == "str":
                    res = str(H[i])
                elif op == "iter":
                    res = list(H[i])
                elif op == "bytes":
                    res = H[i].bytes().hex()
                elif op == "bitlist_rev":
                    res = H[i].bitlist(-1)
                elif op == "contains1":
                    res = (1 in H[i])              # an iteration that stops at the first hit
                elif op == "first":
                    res = next(iter(H[i]))         # an iteration abandoned after one element
                else:
                    res = H[i].hw()
            elif op == "drop":
                H[s["dst"]] = None
                ev["a"] = {"dst": s["dst"]}
            else:
                raise ValueError(op)
            ev["out"] = ["ok", cv(res)]
        except _Skip:
            ev["out"] = ["skip"]
        except Exception as e:
            ev["out"] = ["exc", type(e).__name__]
        ev["snap"], ev["part"] = snap()
        events.append(ev)
    return events


class _Skip(Exception):
    pass


# ---------------------------------------------------------------------------------------------
class C08(Machine):
    prop = "C08"
    title = "Bits: mutation sequences, aliases, operands unchanged"
    runs = (12000, 600000)
    components = {"real": ["crysp.bits.Bits (all operators, getitem/setitem, size setter, extension, split)", "crysp.utils.operators rol/ror"],
                  "stub": ["models/bits_ref.py ((value,size) algebra) and the alias-class bookkeeping of the checker"]}
    rule = ("one evaluation = one simulated run: 1-3 clients issue <=25 operations (construct/copy/bind, setitem by int/negative "
            "int/slice with any start,stop,step/index list with repeats, size change, zero/sign extension, augmented assignment, "
            "every binary/unary operator with Bits and int operands on either side, shifts, rotations, concatenation, split, "
            "reads, and - fault kind bad_call - single-bit assignments at indices outside the vector) on a shared heap of <=6 vectors (widths 0-6 densely, word boundaries up to 2048); after every step every "
            "live handle must equal its reference cell and satisfy 0<=ival<=mask==2**size-1. distinct = distinct abstract traces "
            "((client, op, width class, index-expression class) in schedule order); non-trivial = the run contains a mutation of "
            "a vector that has another live alias, or a read/operator on a vector after a mutation of it by another client")
    assumptions = ["the only fault kind is bad_call: a single-bit assignment at an index outside the vector (refused by the pinned "
                   "tree with IndexError); refused or not, every vector must still equal its reference cell and satisfy ival<=mask. "
                   "No atomicity is promised for a failing slice/list __setitem__, so all other operations are valid for the "
                   "current vector (the executor concretises indices against the actual size)",
                   "aliasing of zero/sign extension results is observed, not demanded; index lists hold in-range indices (from-the-end "
                   "positions only in assignments: reading through a list with negative entries is unsupported by the library); the "
                   "caller's index list must be unchanged by the call",
                   "an int assigned to a stepped slice or an index list has exactly as many bits as the selection"]

    def executor(self):
        return c08_exec

    def gen(self, rng, idx, seed):
        pb = PlanBuilder(self.prop, seed, idx)
        plan = pb.plan
        nclients = rng.choice([1, 2, 2, 3])
        # everybody starts from a few vectors built by client 0
        c0 = pb.client()
        for d in range(rng.randint(2, 4)):
            w = rwidth(rng)
            pb.step(c0, op="new", dst=d, size=w, val=rval(rng, w), src=rng.choice(["int", "int", "list", "bytes"]))
        clients = [c0] + [pb.client() for _ in range(nclients - 1)]
        budget = rng.randint(6, 22)
        READS = ["int", "sint", "str", "iter", "hw", "bytes", "bitlist_rev", "contains1", "first", "iter", "hw"]
        for _ in range(budget):
            c = rng.choice(clients)
            r = rng.random()
            u = [rint(rng) for _ in range(5)]
            around = 0.12 <= r < 0.58 and rng.random() < 0.3      # a mutation: read the same vector before and after it
            rd = rng.choice(READS)
            if around:
                pb.step(c, op=rd, u=[u[0], 0, 0, 0, 0])
            dst = rng.randrange(NH)
            if r < 0.06:
                w = rwidth(rng)
                pb.step(c, op="new", dst=dst, size=w, val=rval(rng, w), src=rng.choice(["int", "int", "list", "bytes"]))
            elif r < 0.12:
                pb.step(c, op=rng.choice(["copy", "bind", "bind"]), dst=dst, u=u)
            elif r < 0.20:
                pb.step(c, op="setbit" if rng.random() < 0.85 else "setbit_oob", u=u)
            elif r < 0.34:
                pb.step(c, op="setslice", u=u, rhs={"kind": rng.choice(["list", "bits", "int", "shortint", "handle"]), "seed": rng.getrandbits(2100)})
            elif r < 0.40:
                pb.step(c, op="setlist", u=u, rhs={"kind": rng.choice(["list", "bits", "int", "handle"]), "seed": rng.getrandbits(8)})
            elif r < 0.45:
                pb.step(c, op="setsize", u=u, size=rwidth(rng), rel=rng.choice([None, None, -1, 0, 1, 1, 8, -8]))
            elif r < 0.52:
                pb.step(c, op=rng.choice(["zeroextend", "signextend", "extend"]), u=u, size=rwidth(rng),
                        rel=rng.choice([None, None, -1, 0, 1, 1, 8]), dst=dst if rng.random() < 0.6 else None)
            elif r < 0.58:
                o = rng.choice(BINOPS)
                if rng.random() < 0.6:
                    pb.step(c, op="aug", u=u, operator=o, other="handle")
                else:
                    pb.step(c, op="aug", u=u, operator=o, other="int", int=small_int(rng))
            elif r < 0.70:
                o = rng.choice(BINOPS)
                if rng.random() < 0.5:
                    pb.step(c, op="binop", u=u, operator=o, other="handle", dst=dst)
                else:
                    pb.step(c, op="binop", u=u, operator=o, other="int", int=small_int(rng), left_int=rng.random() < 0.5, dst=dst)
            elif r < 0.73:
                if rng.random() < 0.5:
                    pb.step(c, op="mul", u=u, other="handle", dst=dst)
                else:
                    pb.step(c, op="mul", u=u, other="int", int=small_int(rng), dst=dst)
            elif r < 0.78:
                pb.step(c, op="unary", u=u, operator=rng.choice(["~", "-"]), dst=dst)
            elif r < 0.82:
                pb.step(c, op="shift", u=u, operator=rng.choice(["<<", ">>"]), dst=dst)
            elif r < 0.85:
                pb.step(c, op="rot", u=u, operator=rng.choice(["rol", "ror"]), dst=dst)
            elif r < 0.88:
                if rng.random() < 0.6:
                    pb.step(c, op="concat", u=u, other="handle", dst=dst)
                else:
                    pb.step(c, op="concat", u=u, other="int", int=small_int(rng), dst=dst)
            elif r < 0.90:
                pb.step(c, op="split", u=u, dst=dst if rng.random() < 0.6 else None, dst2=rng.randrange(NH) if rng.random() < 0.5 else None)
            elif r < 0.93:
                pb.step(c, op="getbit", u=u, dst=dst if rng.random() < 0.5 else None)
            elif r < 0.96:
                pb.step(c, op=rng.choice(["getslice", "getslice", "getlist"]), u=u, dst=dst if rng.random() < 0.7 else None)
            else:
                pb.step(c, op=rng.choice(["int", "sint", "str", "iter", "hw", "bytes", "bitlist_rev", "hd", "contains1", "first"]), u=u)
            if around:
                pb.step(c, op=rd, u=[u[0], 0, 0, 0, 0])
        return pb.finish(rng)

    # -----------------------------------------------------------------------------------------
    def check(self, plan, hist, oracle):
        vs = []
        probes = {}

        def probe(n, k=1):
            probes[n] = probes.get(n, 0) + k
        cells = {}             # cell id -> (v, n)
        hc = [None] * NH       # handle -> cell id (intended alias classes)
        nxt = [0]
        last_mut = {}          # cell -> client of the last mutation
        nbad = [0, 0]          # rejected calls planned / actually refused by the library
        trace = []
        nontrivial = False
        steps = {s["id"]: s for s in plan["steps"]}

        def fresh(val):
            nxt[0] += 1
            cells[nxt[0]] = tuple(val)
            return nxt[0]

        def vec(od):
            if "handle" in od:
                return cells[hc[od["handle"]]]
            return od["int"]

        for e in hist:
            s = steps[e["id"]]
            op = e["op"]
            c = s.get("c", 0)
            if e["out"][0] == "skip":
                trace.append("%d:%s:skip" % (c, op))
                continue
            a = e.get("a", {})
            if e["out"][0] == "exc":
                opn0 = op + (":" + s["operator"] if "operator" in s else "")
                trace.append("%d:%s:exc" % (c, opn0))
                vs.append(vio("unexpected_error", "Bits", opn0, e["id"], {"got": e["out"], "args": _short(a), "pre": _pre(e, a)}))
                break
            exp_res = None
            has_res = False
            mutated = None
            wcls = "-"
            try:
                if op == "new":
                    hc[a["dst"]] = fresh((a["val"], a["size"]))
                    wcls = _wc(a["size"])
                elif op == "copy":
                    hc[a["dst"]] = fresh(cells[hc[a["src"]]])
                elif op == "bind":
                    hc[a["dst"]] = hc[a["src"]]
                    probe("bind_alias_created")
                elif op == "drop":
                    hc[a["dst"]] = None
                elif op == "setbit":
                    cell = hc[a["h"]]
                    v, n = cells[cell]
                    i = a["i"] % n
                    cells[cell] = R.assign((v, n), [i], [a["v"]])
                    mutated = cell
                    wcls = _wc(n) + ("neg" if a["i"] < 0 else "")
                elif op == "setbit_oob":
                    n = cells[hc[a["h"]]][1]
                    nbad[0] += 1
                    nbad[1] += 1 if a.get("raised") else 0
                    probe("out_of_range_bit_assignment_" + ("refused" if a.get("raised") else "accepted_without_effect"))
                    wcls = _wc(n) + ("neg" if a["i"] < 0 else "")
                elif op == "getbit":
                    v, n = cells[hc[a["h"]]]
                    exp_res = {"bits": [(v >> (a["i"] % n)) & 1, 1]}
                    has_res = True
                    if a.get("dst") is not None:
                        hc[a["dst"]] = fresh(((v >> (a["i"] % n)) & 1, 1))
                    wcls = _wc(n) + ("neg" if a["i"] < 0 else "")
                elif op in ("setslice", "setlist"):
                    cell = hc[a["h"]]
                    # the right-hand side may be a heap handle: its cell must not change
                    nn = cells[cell][1]
                    cells[cell] = R.assign(cells[cell], [x % nn if x < 0 else x for x in a["idx"]], a["bits"])
                    if op == "setlist" and any(x < 0 for x in a["idx"]):
                        probe("index_list_with_from_the_end_positions")
                    if op == "setlist" and a.get("idx_after") != a["idx"]:
                        vs.append(vio("argument_changed", "Bits", op, e["id"], {"index_list_before": a["idx"], "after": a.get("idx_after")}))
                        break
                    mutated = cell
                    wcls = _wc(cells[cell][1]) + _sc(a)
                    if op == "setslice" and (a["slice"][2] not in (None, 1) or any(x is not None and x < 0 for x in a["slice"][:2])):
                        probe("stepped_or_negative_slice_assignment")
                    if "handle" in a["rhs"]:
                        probe("setitem_rhs_is_heap_vector")
                elif op in ("getslice", "getlist"):
                    r = R.select(cells[hc[a["h"]]], a["idx"])
                    exp_res = {"bits": [r[0], r[1]]}
                    has_res = True
                    if a.get("dst") is not None:
                        hc[a["dst"]] = fresh(r)
                        if len(a["idx"]) == cells[hc[a["h"]]][1] if hc[a["h"]] in cells else False:
                            probe("full_range_read_kept_in_a_handle")
                    wcls = _wc(cells[hc[a["h"]]][1]) + _sc(a)
                elif op == "setsize":
                    cell = hc[a["h"]]
                    cells[cell] = R.resize(cells[cell], a["size"])
                    mutated = cell
                    wcls = _wc(a["size"])
                elif op in ("zeroextend", "signextend", "extend"):
                    cell = hc[a["h"]]
                    cells[cell] = R.signextend(cells[cell], a["size"]) if a["sign"] else R.zeroextend(cells[cell], a["size"])
                    mutated = cell
                    exp_res = {"bits": list(cells[cell])}
                    has_res = True
                    if a.get("dst") is not None:
                        # aliasing is observed, not demanded
                        hc[a["dst"]] = cell if a["same"] else fresh(cells[cell])
                    wcls = _wc(a["size"])
                elif op in ("binop", "aug"):
                    x = cells[hc[a["h"]]]
                    y = vec(a["other"])
                    r = R.binop(a["operator"], y, x) if a["left_int"] else R.binop(a["operator"], x, y)
                    exp_res = {"bits": list(r)}
                    has_res = True
                    hc[a["dst"]] = fresh(r)
                    wcls = _wc(x[1]) + ("L" if a["left_int"] else "") + ("i" if "int" in a["other"] else "h")
                    if a["left_int"]:
                        probe("int_on_the_left")
                elif op == "mul":
                    r = R.mul(cells[hc[a["h"]]], vec(a["other"]))
                    exp_res = {"bits": list(r)}
                    has_res = True
                    hc[a["dst"]] = fresh(r)
                elif op == "unary":
                    x = cells[hc[a["h"]]]
                    r = R.inv(x) if a["operator"] == "~" else R.neg(x)
                    exp_res = {"bits": list(r)}
                    has_res = True
                    hc[a["dst"]] = fresh(r)
                    wcls = _wc(x[1])
                elif op == "shift":
                    x = cells[hc[a["h"]]]
                    r = R.shl(x, a["k"]) if a["operator"] == "<<" else R.shr(x, a["k"])
                    exp_res = {"bits": list(r)}
                    has_res = True
                    hc[a["dst"]] = fresh(r)
                    wcls = _wc(x[1])
                elif op == "rot":
                    x = cells[hc[a["h"]]]
                    r = R.rol(x, a["k"]) if a["operator"] == "rol" else R.ror(x, a["k"])
                    exp_res = {"bits": list(r)}
                    has_res = True
                    hc[a["dst"]] = fresh(r)
                    wcls = _wc(x[1])
                elif op == "concat":
                    r = R.concat(cells[hc[a["h"]]], vec(a["other"]))
                    exp_res = {"bits": list(r)}
                    has_res = True
                    hc[a["dst"]] = fresh(r)
                    wcls = _wc(r[1])
                elif op == "split":
                    pieces = R.split(cells[hc[a["h"]]], a["k"])
                    exp_res = [{"bits": list(p)} for p in pieces]
                    has_res = True
                    if a.get("dst") is not None and a.get("piece") is not None:
                        hc[a["dst"]] = fresh(pieces[a["piece"]])
                        if a.get("dst2") is not None:
                            hc[a["dst2"]] = fresh(pieces[a["piece2"]])
                            probe("two_pieces_of_one_split_kept")
                elif op == "int":
                    exp_res = R.to_int(cells[hc[a["h"]]])
                    has_res = True
                elif op == "sint":
                    exp_res = R.to_int(cells[hc[a["h"]]], True)
                    has_res = True
                elif op == "str":
                    exp_res = R.to_str(cells[hc[a["h"]]])
                    has_res = True
                elif op == "iter":
                    x = cells[hc[a["h"]]]
                    exp_res = R.bits_of(x[0], x[1])
                    has_res = True
                elif op == "hw":
                    exp_res = R.hw(cells[hc[a["h"]]])
                    has_res = True
                elif op == "hd":
                    x = cells[hc[a["h"]]]
                    y = cells[hc[a["other"]["handle"]]]
                    exp_res = R.hw((x[0] ^ y[0], x[1]))
                    has_res = True
                elif op == "bytes":
                    exp_res = R.to_bytes(cells[hc[a["h"]]]).hex()
                    has_res = True
                elif op == "bitlist_rev":
                    x = cells[hc[a["h"]]]
                    exp_res = R.bits_of(x[0], x[1])[::-1]
                    has_res = True
                elif op == "contains1":
                    exp_res = cells[hc[a["h"]]][0] != 0
                    has_res = True
                    probe("partial_iteration_read")
                elif op == "first":
                    exp_res = cells[hc[a["h"]]][0] & 1
                    has_res = True
                    probe("partial_iteration_read")
            except (KeyError, TypeError, AssertionError, ZeroDivisionError):
                probe("harness_inconsistency")   # never on a plan as generated (driver turns it into exit 2)
                break        # (only through shrinking) the recorded operation no longer fits the model state
            opn = op + (":" + s["operator"] if "operator" in s else "")
            trace.append("%d:%s:%s" % (c, opn, wcls))
            if e["out"][0] != "ok":
                vs.append(vio("unexpected_error", "Bits", opn, e["id"], {"got": e["out"], "args": a, "pre": _pre(e, a)}))
                break
            if has_res and e["out"][1] != exp_res:
                vs.append(vio("result_value", "Bits", opn, e["id"], {"got": _short(e["out"][1]), "expected": _short(exp_res), "args": _short(a), "pre": _pre(e, a)}))
                break
            bad = False
            classes = {}
            for h in range(NH):
                sn = e["snap"][h]
                if hc[h] is None:
                    continue
                if sn is None:
                    bad = True
                    break
                v, n = cells[hc[h]]
                classes.setdefault(hc[h], []).append(h)
                if sn[2] != (1 << sn[1]) - 1 or not (0 <= sn[0] <= sn[2]):
                    vs.append(vio("payload_exceeds_size", "Bits", opn, e["id"], {"handle": h, "ival": sn[0], "size": sn[1], "mask": sn[2], "args": _short(a)}))
                    bad = True
                    break
                if (sn[0], sn[1]) != (v, n):
                    target = a.get("dst", a.get("h"))
                    is_target = (h == target) or (mutated is not None and hc[h] == mutated)
                    chk = "mutation_result" if (is_target and mutated is not None) else ("result_value" if is_target else "bystander_changed")
                    vs.append(vio(chk, "Bits", opn, e["id"], {"handle": h, "got": [sn[0], sn[1]], "expected": [v, n], "args": _short(a), "pre": _pre(e, a)}))
                    bad = True
                    break
            if bad:
                break
            if mutated is not None:
                if len(classes.get(mutated, [])) > 1:
                    probe("mutation_observed_through_alias")
                    nontrivial = True
                last_mut[mutated] = c
            elif "h" in a and hc[a["h"]] in last_mut and last_mut[hc[a["h"]]] != c:
                probe("read_after_mutation_by_other_client")
                nontrivial = True
            if any(len(v) > 1 for v in classes.values()):
                probe("steps_with_alias_class_gt1")
            for cid in set(x for x in hc if x is not None):
                n = cells[cid][1]
                if n == 0:
                    probe("steps_with_width0_vector")
                    break
            if any(cells[x][1] > 64 for x in hc if x is not None):
                probe("steps_with_width_gt64_vector")
        probe("steps_checked", len(trace))
        extra = {"faults": {"bad_call": nbad} if nbad[0] else {}, "fps": []}
        return vs, probes, "|".join(trace), nontrivial, extra


def _wc(n):
    if n <= 6:
        return "w%d" % n
    if n <= 64:
        return "w<=64"
    return "w>64"


def _sc(a):
    if "slice" in a:
        sl = a["slice"]
        return ":s%s%s%s" % ("n" if any(x is not None and x < 0 for x in sl[:2]) else "", "k" if sl[2] not in (None, 1) else "",
                              "e" if not a["idx"] else "")
    return ":l%d" % len(a["idx"])


def _short(o):
    r = repr(o)
    return r if len(r) < 300 else r[:300] + ".."


def _pre(e, a):
    h = a.get("h")
    p = e.get("pre")
    if h is None or not p or p[h] is None:
        return None
    return p[h][:2] if p[h][0] < (1 << 80) else [hex(p[h][0])[:40] + "..", p[h][1]]
