"""C06 (RC4 clause) - an RC4 object is one continuous stream.

1-2 clients (sometimes SHARING one object: a sender and somebody pulling keystream) issue
enc(piece)/dec(piece)/keystream(n) operations; a reference RC4 stream object is advanced by the
same global order of operations and every output is compared; for enc/dec-only streams the
concatenation is also compared with a one-shot enc on a fresh object (pristine child).
"""
from ..base import B
from ..models.rc4_ref import RC4Ref
from ..plan import PlanBuilder
from .common import Machine, rbytes, vio

KLENS = [1, 5, 16, 255, 256, 3, 40]
PLENS = [0, 0, 1, 2, 7, 64, 255, 256, 257, 300]


class C06(Machine):
    prop = "C06"
    title = "RC4 object is one continuous stream"
    runs = (4000, 150000)
    components = {"real": ["crysp.rc4 RC4", "crysp.poly Poly/pack", "crysp.bits"],
                  "stub": ["models/rc4_ref.py (reference RC4 KSA/PRGA stream object)"]}
    rule = ("one evaluation = one simulated run: 1-2 clients issue 2-10 enc/dec/keystream operations (piece lengths incl. 0, 1, "
            "255, 256, 257) on RC4 objects, sometimes sharing one object, with sibling RC4 objects under other keys as noise; "
            "every output is compared with a reference RC4 stream advanced in the same global order and, for enc/dec-only "
            "streams, the concatenation with a one-shot enc on a fresh object. distinct = distinct abstract traces (key-length "
            "class, (client, op, piece-length class) sequence in schedule order); non-trivial = a stream with >=2 operations on "
            "one object")
    assumptions = ["no fault is injected: the property promises nothing about an RC4 object after an interrupted keystream"]

    def gen(self, rng, idx, seed):
        pb = PlanBuilder(self.prop, seed, idx)
        nobj = rng.choice([1, 1, 2, 3])
        objs = []
        keys = []
        for _ in range(nobj):
            v = rng.random()
            if keys and v < 0.3:
                key = keys[0]                                   # an equal key on another object
            elif keys and v < 0.5:
                key = rbytes(rng, len(keys[0]))                 # same length, other bytes
            else:
                key = rbytes(rng, rng.choice(KLENS))
            keys.append(key)
            objs.append(pb.obj({"kind": "RC4", "key": B(key)}))
        nclients = rng.choice([1, 2, 2])
        shared = nclients == 2 and rng.random() < 0.5
        for ci in range(nclients):
            c = pb.client()
            o = objs[0] if (ci == 0 or shared) else objs[min(ci, nobj - 1)]
            only_enc = rng.random() < 0.4
            if o != objs[0] and rng.random() < 0.5:
                # this client builds its object only now (after others may have produced keystream)
                pb.step(c, k="make", slot=o, obj=o, name="make", tag="make")
            for _ in range(rng.randint(2, 6)):
                n = rng.choice(PLENS) if rng.random() < 0.93 else rng.choice([1024, 1500, 2300])
                r = rng.random()
                if only_enc or r < 0.55:
                    pb.step(c, k="call", obj=o, name="enc", args=[B(rbytes(rng, n))], kw={}, tag="enc:" + _lc(n))
                elif r < 0.75:
                    pb.step(c, k="call", obj=o, name="dec", args=[B(rbytes(rng, n))], kw={}, tag="dec:" + _lc(n))
                else:
                    pb.step(c, k="call", obj=o, name="keystream", args=[n], kw={}, tag="ks:" + _lc(n))
            if rng.random() < 0.5 and nobj > 1:
                # noise on a sibling object in the middle of somebody's stream
                so = objs[-1]
                pb.step(c, k="call", obj=so, name="enc", args=[B(rbytes(rng, rng.choice(PLENS)))], kw={}, tag="sib_enc")
        plan = pb.finish(rng)
        plan["meta"]["shared"] = shared
        plan["recheck_results"] = True
        plan["fp"] = objs[:1]
        return plan

    def check(self, plan, hist, oracle):
        by_id = {e["id"]: e for e in hist}
        refs = {}
        streams = {}
        vs = []
        probes = {}

        def probe(n, k=1):
            probes[n] = probes.get(n, 0) + k
        trace = []
        nontrivial = False
        broken = set()
        for s in plan["steps"]:
            o = s["obj"]
            rec = plan["objects"][o]
            if s.get("k") == "make":
                refs.pop(o, None)
                streams.pop(o, None)
                trace.append("%d:%d:make" % (s.get("c", 0), o))
                continue
            if o not in refs:
                refs[o] = RC4Ref(bytes.fromhex(rec["key"]["b"]))
                streams[o] = {"ops": 0, "pure": True, "inp": b"", "out": b"", "clients": set(), "kinds": set(), "before": 0}
            if not trace:
                trace.append("k%d" % (len(rec["key"]["b"]) // 2))
            trace.append("%d:%d:%s" % (s.get("c", 0), o, s.get("tag")))
            if o in broken:
                continue
            e = by_id[s["id"]]
            st = streams[o]
            st["ops"] += 1
            st["clients"].add(s.get("c", 0))
            st["kinds"].add(s["name"])
            if s["name"] in ("enc", "dec"):
                m = bytes.fromhex(s["args"][0]["b"])
                exp = ["ok", {"b": refs[o].enc(m).hex()}]
                before = st["before"]
                st["before"] += len(m)
                if not m:
                    probe("empty_piece")
                if before // 256 != (before + len(m)) // 256 and len(m) > 0:
                    probe("piece_crossing_index_wrap")
                st["inp"] += m
                if e["out"][0] == "ok" and isinstance(e["out"][1], dict) and "b" in e["out"][1]:
                    st["out"] += bytes.fromhex(e["out"][1]["b"])
            else:
                n = s["args"][0]
                exp = ["ok", {"poly": [refs[o].keystream(n), 8]}]
                st["pure"] = False
                st["before"] += n
            if _norm(e["out"]) != _norm(exp):
                vs.append(vio("stream_output", "RC4", s["name"], s["id"],
                              {"got": _cut(e["out"]), "expected": _cut(exp), "bytes_before": st["before"], "op_index": st["ops"]}))
                broken.add(o)
        fin = by_id.get(-1)
        if fin and fin.get("changed"):
            sid = fin["changed"][0]
            stp = [s for s in plan["steps"] if s["id"] == sid]
            if stp and stp[0]["obj"] not in broken:
                vs.append(vio("returned_value_changed_later", "RC4", stp[0]["name"], sid, {"steps_whose_result_changed": fin["changed"][:5]}))
        for o, st in streams.items():
            if st["ops"] >= 2:
                nontrivial = True
            if st["ops"] >= 3:
                probe("three_or_more_pieces")
            if len(st["kinds"]) > 1:
                probe("mixed_enc_dec_keystream")
            if len(st["clients"]) > 1:
                probe("shared_object")
            if st["pure"] and o not in broken and st["ops"] >= 2:
                mini = {"objects": [plan["objects"][o]], "steps": [{"id": 1, "k": "call", "obj": 0, "name": "enc",
                        "args": [B(st["inp"])], "kw": {}}], "observe": [], "fp": []}
                exp = oracle.ask(mini)[0]["out"]
                if exp[0] == "ok" and exp[1] != {"b": st["out"].hex()}:
                    last = [s for s in plan["steps"] if s["obj"] == o][-1]
                    vs.append(vio("split_vs_oneshot", "RC4", "enc", last["id"],
                                  {"pieces_total": len(st["inp"]), "got_len": len(st["out"]), "oneshot_len": len(exp[1].get("b", "")) // 2}))
                probe("split_compared_with_fresh_oneshot")
        extra = {"faults": {}, "fps": sorted(set(f for e in hist for f in e.get("fp", [])))}
        return vs, probes, "|".join(trace), nontrivial, extra


def _norm(out):
    """Compare keystream values, not container types (Poly, list or bytes are all fine)."""
    if out[0] != "ok":
        return out
    v = out[1]
    if isinstance(v, dict) and "poly" in v:
        return ["ok", list(v["poly"][0] or [])]
    if isinstance(v, dict) and "b" in v:
        return ["ok", list(bytes.fromhex(v["b"]))]
    return out


def _lc(n):
    return "0" if n == 0 else ("1" if n == 1 else ("s" if n < 255 else ("255" if n == 255 else ("256" if n == 256 else "L"))))


def _cut(o):
    s = repr(o)
    return s if len(s) < 160 else s[:160] + ".."
