"""Minimisation of a failing plan (delta debugging over steps, faults and arguments).

A candidate is accepted only if the *same violation class* (check, kind, op) is still reported
when it is executed in a pristine child.  Bounded by a candidate budget.
"""
import copy

from .plan import compact, drop_steps


def vclass(v):
    return (v["check"], v["kind"], v["op"])


def _shorter_bytes(lit):
    h = lit["b"]
    n = len(h) // 2
    out = []
    if n > 0:
        out.append({"b": ""})
    if n > 1:
        out.append({"b": h[: (n // 2) * 2]})
        out.append({"b": h[:-2]})
    if h != "00" * n:
        out.append({"b": "00" * n})
    if h != "61" * n and h != "00" * n:
        out.append({"b": "61" * n})
    return out


def _arg_candidates(plan):
    """Yield plans with one bytes literal in one step simplified."""
    for si, s in enumerate(plan["steps"]):
        for ai, a in enumerate(s.get("args", [])):
            if isinstance(a, dict) and "b" in a:
                for c in _shorter_bytes(a):
                    p = copy.deepcopy(plan)
                    p["steps"][si]["args"][ai] = c
                    yield p
        if s.get("role"):
            continue        # structural keyword arguments (e.g. padding=True of a final piece) stay
        for k in sorted(s.get("kw", {})):
            p = copy.deepcopy(plan)
            del p["steps"][si]["kw"][k]
            yield p


class Shrinker(object):
    def __init__(self, evaluate, target, budget=250):
        """evaluate(plan) -> list of violations (runs the plan in a pristine child + checker)."""
        self.evaluate = evaluate
        self.target = target
        self.budget = budget
        self.tried = 0

    def ok(self, plan):
        if self.tried >= self.budget:
            return False
        self.tried += 1
        try:
            vs = self.evaluate(plan)
        except Exception:
            return False
        return any(vclass(v) == self.target for v in vs)

    def run(self, plan):
        plan = copy.deepcopy(plan)
        # 1. drop faults
        for s in list(plan["steps"]):
            if "fault" in s:
                p = copy.deepcopy(plan)
                for t in p["steps"]:
                    if t["id"] == s["id"]:
                        del t["fault"]
                if self.ok(p):
                    plan = p
        # 2. drop whole clients
        clients = sorted(set(s.get("c", 0) for s in plan["steps"]))
        if len(clients) > 1:
            for c in clients:
                p = drop_steps(plan, [s["id"] for s in plan["steps"] if s.get("c", 0) == c])
                if p["steps"] and self.ok(p):
                    plan = p
        # 3. ddmin over steps
        n = 2
        while len(plan["steps"]) >= 2 and self.tried < self.budget:
            steps = plan["steps"]
            chunk = max(1, len(steps) // n)
            reduced = False
            for i in range(0, len(steps), chunk):
                ids = [s["id"] for s in steps[i:i + chunk]]
                p = drop_steps(plan, ids)
                if p["steps"] and len(p["steps"]) < len(steps) and self.ok(p):
                    plan = p
                    n = max(n - 1, 2)
                    reduced = True
                    break
            if not reduced:
                if chunk == 1:
                    break
                n = min(len(steps), n * 2)
        # 4. simplify arguments (greedy, restart on success)
        progress = True
        while progress and self.tried < self.budget:
            progress = False
            for p in _arg_candidates(plan):
                if self.ok(p):
                    plan = p
                    progress = True
                    break
        # 5. make interrupt positions small / canonical
        for si, s in enumerate(plan["steps"]):
            f = s.get("fault")
            if f and f.get("at") and f["at"] > 1:
                for at in (1, f["at"] // 2):
                    p = copy.deepcopy(plan)
                    p["steps"][si]["fault"]["at"] = at
                    if self.ok(p):
                        plan = p
                        break
        # 6. drop objects nobody needs any more
        p = compact(plan)
        if self.ok(p):
            plan = p
        plan.setdefault("meta", {})["shrunk"] = {"candidates": self.tried}
        return plan
