"""Batch driver: seeded search over plans on a pool of zygote workers, shrinking, known-findings
protocol, evidence, exit codes (DESIGN.md 2.6-2.9)."""
import argparse
import concurrent.futures as cf
import importlib
import json
import multiprocessing as mp
import os
import random
import re
import sys
import time
import traceback

from . import kernel
from .base import (HarnessError, REPO, VERIF_DIR, digest, jdump, master_seed, run_seed)
from .shrink import Shrinker, vclass

MACHINES = {
    "C04": ("crysim.machines.c04_duplex", "C04"),
    "C06": ("crysim.machines.c06_rc4", "C06"),
    "C08": ("crysim.machines.c08_bits", "C08"),
    "C09": ("crysim.machines.c09_padding", "C09"),
    "C10": ("crysim.machines.c10_oneshot", "C10"),
    "C13": ("crysim.machines.c13_hmac", "C13"),
    "C14": ("crysim.machines.c14_stream", "C14"),
    "C20": ("crysim.machines.c20_utils", "C20"),
}

_machine_cache = {}


def get_machine(prop):
    if prop not in _machine_cache:
        mod, cls = MACHINES[prop]
        _machine_cache[prop] = getattr(importlib.import_module(mod), cls)()
    return _machine_cache[prop]


def execute(machine, plan):
    ex = machine.executor()
    if ex is None:
        return kernel.run_plan(plan)
    return kernel.in_child(ex, plan)


def prepare(machine, plan):
    if any(s.get("fault") and s["fault"].get("at") is None for s in plan["steps"]):
        plan = kernel.resolve_faults(plan)
    return plan


def step_sig(plan):
    out = []
    for s in plan["steps"]:
        t = s.get("tag") or s.get("name") or s.get("k") or s.get("op", "?")
        if s.get("fault"):
            t += "!" + s["fault"]["kind"]
        out.append(t)
    return ",".join(out)


def load_known():
    p = os.path.join(VERIF_DIR, "known_findings.json")
    if not os.path.exists(p):
        return []
    with open(p) as f:
        return json.load(f).get("findings", [])


def match_known(prop, plan_min, v, known, plan_orig=None, v_orig=None):
    sig = step_sig(plan_min)
    for k in known:
        if k.get("status") != "open" or k.get("property") != prop:
            continue
        m = k.get("match", {})
        if "check" in m and v["check"] not in m["check"]:
            continue
        if "kind" in m and v["kind"] not in m["kind"]:
            continue
        if "op" in m and v["op"] not in m["op"]:
            continue
        if "sig_regex" in m and not re.fullmatch(m["sig_regex"], sig):
            continue
        if "recipe_contains" in m and not all(x in jdump(plan_min["objects"]) for x in m["recipe_contains"]):
            continue
        if "explain" in m:
            mach = get_machine(prop)
            if not getattr(mach, "explain_" + m["explain"])(plan_min, v):
                continue
            # the run as found (before minimisation) must already have the finding's shape:
            # minimisation must not be able to move another defect into a known finding
            orig = getattr(mach, "explain_" + m["explain"] + "_orig", None)
            if orig is not None and plan_orig is not None and not orig(plan_orig, v_orig):
                continue
        return k
    return None


# ---------------------------------------------------------------------------------------------
_W = {}


_STOP = mp.Value("i", 0)       # (self-test aid) unlisted violations found so far, shared with forked workers
_STOP_AFTER = [0]


def _winit():
    kernel.zygote_init()


def one_run(machine, master, idx, oracle, shrink_budget):
    seed = run_seed(master, machine.prop, idx)
    rng = random.Random(seed)
    plan = machine.gen(rng, idx, seed)
    if rng.random() < 0.15 and machine.executor() is None:
        # calling style of this run's simulated callers: bound methods are fetched once and re-used
        plan["held_methods"] = True
    plan = prepare(machine, plan)
    hist = execute(machine, plan)
    vs, probes, trace, nontrivial, extra = machine.check(plan, hist, oracle)
    if plan.get("held_methods"):
        probes = dict(probes)
        probes["runs_with_bound_methods_fetched_once"] = 1
    res = {"idx": idx, "seed": seed, "events": len(hist), "digest": digest(hist), "probes": probes,
           "trace": digest(trace), "nontrivial": nontrivial, "extra": extra, "violations": []}
    if vs:
        seen = set()
        for v in vs:
            if vclass(v) in seen:
                continue
            seen.add(vclass(v))

            def ev(p):
                h = execute(machine, p)
                return machine.check(p, h, oracle)[0]
            sh = Shrinker(ev, vclass(v), shrink_budget)
            pmin = sh.run(plan)
            vmin = [x for x in ev(pmin) if vclass(x) == vclass(v)]
            po = dict(plan)
            po["_outcomes"] = {str(e["id"]): [e["out"][0], bool(e.get("flt", {}).get("fired"))] for e in hist}
            res["violations"].append({"plan": po, "plan_min": pmin, "v": (vmin or [v])[0], "v0": v})
    return res, plan, hist


def work(prop, master, idxs, shrink_budget):
    try:
        machine = get_machine(prop)
        oracle = _W.setdefault("oracle", kernel.Oracle())
        q0 = oracle.queries
        agg = {"runs": 0, "events": 0, "probes": {}, "traces": set(), "nt_traces": set(), "violations": [],
               "faults": {}, "fps": set(), "ngrams": set(), "digests": {}, "samples": [], "extra_counts": {}}
        for idx in idxs:
            if _STOP_AFTER[0] and _STOP.value >= _STOP_AFTER[0]:
                break
            res, plan, hist = one_run(machine, master, idx, oracle, shrink_budget)
            agg["runs"] += 1
            agg["events"] += res["events"]
            agg["digests"][idx] = res["digest"]
            for k, n in res["probes"].items():
                agg["probes"][k] = agg["probes"].get(k, 0) + n
            agg["traces"].add(res["trace"])
            if res["nontrivial"]:
                agg["nt_traces"].add(res["trace"])
            ex = res["extra"]
            for k, (c, f) in ex.get("faults", {}).items():
                d = agg["faults"].setdefault(k, [0, 0])
                d[0] += c
                d[1] += f
            agg["fps"].update(ex.get("fps", []))
            agg["ngrams"].update(ex.get("ngrams", []))
            for k, n in ex.get("counts", {}).items():
                agg["extra_counts"][k] = agg["extra_counts"].get(k, 0) + n
            for v in res["violations"]:
                v["idx"] = idx
                v["seed"] = res["seed"]
                agg["violations"].append(v)
                if _STOP_AFTER[0] and match_known(prop, v["plan_min"], v["v"], _W.setdefault("known", load_known()),
                                                  v.get("plan"), v.get("v0")) is None:
                    with _STOP.get_lock():
                        _STOP.value += 1
            if len(agg["samples"]) < 1 and res["nontrivial"]:
                agg["samples"].append({"run": idx, "seed": res["seed"],
                                       "steps": [_brief(s) for s in plan["steps"]],
                                       "outcomes": [e["out"][0] for e in hist]})
        agg["oracle_queries"] = oracle.queries - q0
        for k in ("traces", "nt_traces", "fps", "ngrams"):
            agg[k] = sorted(agg[k])
        return {"ok": agg}
    except HarnessError as e:
        return {"harness_error": str(e)}
    except Exception:
        return {"harness_error": traceback.format_exc()}


def _brief(s):
    d = {k: s[k] for k in ("c", "k", "obj", "name", "tag", "kind", "gen") if k in s}
    if "args" in s:
        d["args"] = [_short(a) for a in s["args"]]
    if s.get("kw"):
        d["kw"] = {k: _short(v) for k, v in s["kw"].items()}
    if "fault" in s:
        d["fault"] = s["fault"]
    return d


def _short(a):
    if isinstance(a, dict) and "b" in a and len(a["b"]) > 24:
        return {"b": a["b"][:16] + "..", "len": len(a["b"]) // 2}
    return a


# ---------------------------------------------------------------------------------------------
def replay(prop, path):
    machine = get_machine(prop)
    with open(path) as f:
        plan = json.load(f)
    oracle = kernel.Oracle()
    plan = prepare(machine, plan)
    hist = execute(machine, plan)
    vs = machine.check(plan, hist, oracle)[0]
    return plan, hist, vs


def main(argv=None):
    ap = argparse.ArgumentParser(description="crysim check")
    ap.add_argument("prop")
    ap.add_argument("--tier", default=os.environ.get("VERIF_TIER") or "quick", choices=["quick", "thorough"])
    ap.add_argument("--runs", type=int)
    ap.add_argument("--workers", type=int, default=int(os.environ.get("VERIF_WORKERS", "0")) or min(16, os.cpu_count() or 4))
    ap.add_argument("--max-wall", type=float)
    ap.add_argument("--stop-after", type=int, default=int(os.environ.get("VERIF_STOP_AFTER", "0")),
                    help="self-test aid: stop scheduling further runs once this many unlisted violations were found")
    ap.add_argument("--replay")
    ap.add_argument("--no-evidence", action="store_true")
    ap.add_argument("--dump-digests")
    ap.add_argument("--start", type=int, default=0)
    a = ap.parse_args(argv)
    prop = a.prop
    t0 = time.time()
    try:
        kernel.zygote_init()
        machine = get_machine(prop)
        if a.replay:
            plan, hist, vs = replay(prop, a.replay)
            for e, s in zip(hist, plan["steps"]):
                print("event id=%s %s -> %s" % (e["id"], jdump(_brief(s)), jdump(e["out"])[:200]))
            if vs:
                for v in vs:
                    print("REPRODUCED property=%s check=%s kind=%s op=%s step=%s detail=%s" % (
                        prop, v["check"], v["kind"], v["op"], v["step"], jdump(v["detail"])[:600]))
                print("VIOLATION property=%s replay=%s" % (prop, a.replay))
                return 1
            print("replay: no violation")
            return 0
        return batch(a, prop, machine, t0)
    except HarnessError as e:
        print("HARNESS-ERROR property=%s %s" % (prop, e))
        return 2
    except Exception:
        print("HARNESS-ERROR property=%s\n%s" % (prop, traceback.format_exc()))
        return 2


def batch(a, prop, machine, t0):
    master = master_seed()
    tier = a.tier
    nruns = a.runs or machine.runs[0 if tier == "quick" else 1]
    max_wall = a.max_wall or (machine.max_wall[0 if tier == "quick" else 1] if hasattr(machine, "max_wall")
                              else (600 if tier == "quick" else 5400))
    shrink_budget = 200
    known = load_known()
    out_lines = []
    # -- known findings: re-execute each open entry's minimal replay on the current tree
    known_status = []
    for k in known:
        if k.get("property") != prop:
            continue
        if k.get("status") == "open":
            rp = os.path.join(VERIF_DIR, k["replay"])
            _, _, vs = replay(prop, rp)
            rep = bool(vs)
            known_status.append({"id": k["id"], "reproduced": rep})
            if rep:
                print("KNOWN-FINDING: property=%s %s" % (prop, k["what"]))
            else:
                print("note: known finding %s no longer reproduces on this tree" % k["id"])
    # -- determinism probe: the first runs executed here must match what the workers produce
    nprobe = min(6, nruns)
    oracle = kernel.Oracle()
    local = {}
    for idx in range(a.start, a.start + nprobe):
        local[idx] = _probe_run(machine, master, idx)
    chunk = max(1, min(40, nruns // (a.workers * 4) or 1))
    idxs = list(range(a.start, a.start + nruns))
    chunks = [idxs[i:i + chunk] for i in range(0, len(idxs), chunk)]
    agg = {"runs": 0, "events": 0, "probes": {}, "traces": set(), "nt_traces": set(), "violations": [],
           "faults": {}, "fps": set(), "ngrams": set(), "digests": {}, "samples": [], "oracle_queries": 0,
           "extra_counts": {}}
    capped = False
    _STOP_AFTER[0] = a.stop_after or 0
    ctx = mp.get_context("fork")
    with cf.ProcessPoolExecutor(max_workers=a.workers, mp_context=ctx, initializer=_winit) as pool:
        futs = [pool.submit(work, prop, master, c, shrink_budget) for c in chunks]
        pending = set(futs)
        while pending:
            left = max_wall - (time.time() - t0)
            if left <= 0:
                capped = True
                for f in pending:
                    f.cancel()
            done, pending = cf.wait(pending, timeout=max(1.0, min(left, 30)) if not capped else 300,
                                    return_when=cf.FIRST_COMPLETED if not capped else cf.ALL_COMPLETED)
            for f in done:
                if f.cancelled():
                    continue
                r = f.result()
                if "harness_error" in r:
                    raise HarnessError(r["harness_error"])
                r = r["ok"]
                agg["runs"] += r["runs"]
                agg["events"] += r["events"]
                agg["oracle_queries"] += r["oracle_queries"]
                for k, n in r["probes"].items():
                    agg["probes"][k] = agg["probes"].get(k, 0) + n
                for k, n in r["extra_counts"].items():
                    agg["extra_counts"][k] = agg["extra_counts"].get(k, 0) + n
                for k in ("traces", "nt_traces", "fps", "ngrams"):
                    agg[k].update(r[k])
                for k, (c, fi) in r["faults"].items():
                    d = agg["faults"].setdefault(k, [0, 0])
                    d[0] += c
                    d[1] += fi
                agg["digests"].update({int(k): v for k, v in r["digests"].items()})
                agg["violations"].extend(r["violations"])
                if a.stop_after and not capped:
                    fresh = sum(1 for v in agg["violations"]
                                if match_known(prop, v["plan_min"], v["v"], known, v.get("plan"), v.get("v0")) is None)
                    if fresh >= a.stop_after:
                        capped = True
                        for f2 in pending:
                            f2.cancel()
                if len(agg["samples"]) < 3:
                    agg["samples"].extend(r["samples"])
            if capped:
                pending = set(f for f in pending if not f.cancelled() and not f.done())
    if agg["probes"].get("harness_inconsistency"):
        raise HarnessError("a checker stopped early on %d plan(s) as generated (generator/model inconsistency)"
                           % agg["probes"]["harness_inconsistency"])
    # determinism probe verdict
    mism = [i for i in local if i in agg["digests"] and agg["digests"][i] != local[i]]
    if mism:
        raise HarnessError("determinism probe mismatch on runs %r" % mism)
    if a.dump_digests:
        with open(a.dump_digests, "w") as f:
            json.dump({str(k): v for k, v in sorted(agg["digests"].items())}, f)
    # -- violations: match against known findings, write replays
    vio_count = 0
    known_hits = {}
    os.makedirs(os.path.join(VERIF_DIR, "out", "replays"), exist_ok=True)
    reported = set()
    for v in sorted(agg["violations"], key=lambda x: x["idx"]):
        k = match_known(prop, v["plan_min"], v["v"], known, v.get("plan"), v.get("v0"))
        if k is not None:
            known_hits[k["id"]] = known_hits.get(k["id"], 0) + 1
            continue
        vio_count += 1
        sig = (vclass(v["v"]), step_sig(v["plan_min"]))
        if sig in reported and len(reported) >= 1:
            continue
        if len(reported) >= 10:
            continue
        reported.add(sig)
        path = os.path.join(VERIF_DIR, "out", "replays", "%s-%d-%d.json" % (prop, master, v["idx"]))
        pm = dict(v["plan_min"])
        pm["violation"] = v["v"]
        with open(path, "w") as f:
            json.dump(pm, f, indent=1, sort_keys=True)
        print("violation: run=%d seed=%d check=%s kind=%s op=%s sig=%s detail=%s" % (
            v["idx"], v["seed"], v["v"]["check"], v["v"]["kind"], v["v"]["op"], step_sig(v["plan_min"]),
            jdump(v["v"]["detail"])[:400]))
        print("VIOLATION property=%s replay=%s" % (prop, path))
    wall = time.time() - t0
    totals = machine.totals() if hasattr(machine, "totals") else {}
    ng2 = len([n for n in agg["ngrams"] if n.startswith("2|")])
    ng3 = len([n for n in agg["ngrams"] if n.startswith("3|")])
    ev = {
        "property_id": prop, "tier": tier, "seed": master, "level": "exploration",
        "coverage": {
            "evaluations": agg["runs"],
            "distinct_nontrivial": len(agg["nt_traces"]),
            "rule": machine.rule,
            "samples": agg["samples"][:3] or [{"note": "no non-trivial sample captured"}],
            "distinct_abstract_traces": len(agg["traces"]),
            "runs_requested": nruns, "wall_capped": capped,
            "runs_per_hour": int(agg["runs"] / wall * 3600) if wall > 0 else 0,
            "seeds": {"master": master, "derivation": "sha256('%d:%s:<run>')[:16]" % (master, prop),
                      "run_indices": [a.start, a.start + nruns - 1]},
            "logical_ticks": agg["events"],
            "simulated_time": "the system has no clock; time is the simulator's global event number (logical_ticks)",
            "faults": {k: {"configured": c, "fired": f} for k, (c, f) in sorted(agg["faults"].items())},
            "faults_not_present_in_system": ["message loss/duplication/reordering", "partition", "crash/restart (no durable state)",
                                             "clock skew", "disk faults", "thread pre-emption (no property claims thread-safety)"],
            "probes": dict(sorted(agg["probes"].items())),
            "counts": dict(sorted(agg["extra_counts"].items())),
            "distinct_state_fingerprints": len(agg["fps"]),
            "ngram_coverage": {"bigrams_seen": ng2, "trigrams_seen": ng3,
                               "fault_bigrams_seen": len([n for n in agg["ngrams"] if n.startswith("F|")]), **totals},
            "oracle_queries": agg["oracle_queries"],
            "determinism_probe": {"runs_rechecked": len(local), "mismatches": 0},
            "components": machine.components,
            "known_findings_reproduced": known_status,
            "known_finding_hits_in_search": known_hits,
            "workers": a.workers, "repo": REPO,
        },
        "assumptions": list(getattr(machine, "assumptions", [])) + [
            "sampling, not proof: a clean batch is evidence only",
            "fresh-twin oracles cannot see a defect that is present identically with and without history",
        ],
        "wall_s": round(wall, 2),
        "violations": vio_count,
    }
    if not a.no_evidence:
        os.makedirs(os.path.join(VERIF_DIR, "evidence"), exist_ok=True)
        with open(os.path.join(VERIF_DIR, "evidence", prop + ".json"), "w") as f:
            json.dump(ev, f, indent=1, sort_keys=True)
        if tier == "thorough":
            # keep the last thorough-tier evidence next to the (quick) file the harness rewrites
            os.makedirs(os.path.join(VERIF_DIR, "evidence", "thorough"), exist_ok=True)
            with open(os.path.join(VERIF_DIR, "evidence", "thorough", prop + ".json"), "w") as f:
                json.dump(ev, f, indent=1, sort_keys=True)
    print("%s tier=%s runs=%d events=%d distinct_traces=%d nontrivial=%d oracle_q=%d violations=%d known_hits=%s wall=%.1fs%s" % (
        prop, tier, agg["runs"], agg["events"], len(agg["traces"]), len(agg["nt_traces"]), agg["oracle_queries"],
        vio_count, known_hits, wall, " (wall-capped)" if capped else ""))
    if agg["runs"] == 0:
        raise HarnessError("no run executed")
    return 1 if vio_count else 0


def _probe_run(machine, master, idx):
    seed = run_seed(master, machine.prop, idx)
    rng = random.Random(seed)
    plan = machine.gen(rng, idx, seed)
    plan = prepare(machine, plan)
    hist = execute(machine, plan)
    return digest(hist)
