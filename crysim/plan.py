"""Plan helpers shared by the machines: builder, dependency closure, oracle mini-plans."""
import copy


class PlanBuilder(object):
    """Collects objects and per-client programs, then linearises them with a schedule drawn
    from the run's PRNG.  The linear step list *is* the schedule (replay needs nothing else)."""

    def __init__(self, prop, seed, run):
        self.plan = {"property": prop, "seed": seed, "run": run, "objects": [], "steps": [],
                     "observe": [], "fp": [], "meta": {}}
        self.clients = []
        self._id = 0

    def obj(self, recipe):
        self.plan["objects"].append(recipe)
        return len(self.plan["objects"]) - 1

    def client(self):
        self.clients.append([])
        return len(self.clients) - 1

    def step(self, c, **f):
        self._id += 1
        f["id"] = self._id
        f["c"] = c
        self.clients[c].append(f)
        return self._id

    def finish(self, rng, atomic_groups=False):
        """Interleave the clients' programs: at each tick the PRNG picks which client takes its
        next step."""
        pos = [0] * len(self.clients)
        live = [i for i, c in enumerate(self.clients) if c]
        steps = []
        while live:
            c = live[rng.randrange(len(live))] if len(live) > 1 else live[0]
            # a client keeps the processor for a short random burst
            burst = 1 if rng.random() < 0.6 else rng.randint(2, 4)
            for _ in range(burst):
                if pos[c] >= len(self.clients[c]):
                    break
                steps.append(self.clients[c][pos[c]])
                pos[c] += 1
            if pos[c] >= len(self.clients[c]):
                live.remove(c)
        self.plan["steps"] = steps
        return self.plan


def lit_refs(v, out):
    if isinstance(v, list):
        for x in v:
            lit_refs(x, out)
    elif isinstance(v, dict):
        if "ref" in v:
            out.add(v["ref"])
        for k in ("t", "cat"):
            if k in v:
                lit_refs(v[k], out)


def lit_objs(v, out):
    if isinstance(v, list):
        for x in v:
            lit_objs(x, out)
    elif isinstance(v, dict):
        if "obj" in v and isinstance(v["obj"], int):
            out.add(v["obj"])
        for k in ("t", "cat", "inner", "cipherclass"):
            if k in v:
                lit_objs(v[k], out)


def step_deps(s):
    d = set()
    for a in s.get("args", []):
        lit_refs(a, d)
    for a in s.get("kw", {}).values():
        lit_refs(a, d)
    if "val" in s:
        lit_refs(s["val"], d)
    if "gen" in s:
        d.add(s["gen"])
    return d


def step_objs(s):
    d = set()
    if "obj" in s:
        d.add(s["obj"])
    if "slot" in s:
        d.add(s["slot"])
    for a in s.get("args", []):
        lit_objs(a, d)
    for a in s.get("kw", {}).values():
        lit_objs(a, d)
    if s.get("fault", {}).get("kind") == "collab_fail":
        d.add(s["fault"]["proxy"])
    return d


def recipe_objs(r):
    d = set()
    for v in r.values():
        lit_objs(v, d)
    return d


def obj_closure(objects, roots):
    need = set()
    todo = list(roots)
    while todo:
        k = todo.pop()
        if k in need:
            continue
        need.add(k)
        todo.extend(recipe_objs(objects[k]))
    return need


def _remap_lit(v, m):
    if isinstance(v, list):
        return [_remap_lit(x, m) for x in v]
    if isinstance(v, dict):
        o = {}
        for k, x in v.items():
            if k == "obj" and isinstance(x, int):
                o[k] = m[x]
            elif k in ("t", "cat", "inner", "cipherclass"):
                o[k] = _remap_lit(x, m)
            else:
                o[k] = x
        return o
    return v


def drop_steps(plan, drop_ids):
    """Remove the given steps and, transitively, every step that depends on one of them."""
    drop = set(drop_ids)
    changed = True
    while changed:
        changed = False
        for s in plan["steps"]:
            if s["id"] not in drop and step_deps(s) & drop:
                drop.add(s["id"])
                changed = True
    p = dict(plan)
    p["steps"] = [s for s in plan["steps"] if s["id"] not in drop]
    return p


def compact(plan):
    """Drop objects no remaining step (or kept object) needs; renumber."""
    roots = set()
    for s in plan["steps"]:
        roots |= step_objs(s)
    keep = sorted(obj_closure(plan["objects"], roots))
    m = {old: new for new, old in enumerate(keep)}
    p = copy.deepcopy(plan)
    p["objects"] = [{k: _remap_lit(v, m) for k, v in plan["objects"][old].items()} for old in keep]
    for s in p["steps"]:
        if "obj" in s:
            s["obj"] = m[s["obj"]]
        if "slot" in s:
            s["slot"] = m[s["slot"]]
        if "args" in s:
            s["args"] = _remap_lit(s["args"], m)
        if "kw" in s:
            s["kw"] = {k: _remap_lit(v, m) for k, v in s["kw"].items()}
        if s.get("fault", {}).get("kind") == "collab_fail":
            s["fault"]["proxy"] = m[s["fault"]["proxy"]]
    p["observe"] = [[m[o], path] for o, path in plan.get("observe", []) if o in m]
    p["fp"] = [m[o] for o in plan.get("fp", []) if o in m]
    for st in p.get("meta", {}).get("streams", []):
        if st.get("obj") in m:
            st["obj"] = m[st["obj"]]
    if "roles" in p.get("meta", {}):
        p["meta"]["roles"] = {str(m[int(k)]): v for k, v in p["meta"]["roles"].items() if int(k) in m}
    return p


def resolve_refs_from_history(step, by_id):
    """Replace {"ref": id} literals by the literal value the referenced event returned, so that
    the step can be asked of a pristine oracle on its own.  Returns None if a referenced event
    did not return a value."""

    class _Miss(Exception):
        pass

    def rl(v):
        if isinstance(v, list):
            return [rl(x) for x in v]
        if isinstance(v, dict):
            if "ref" in v:
                e = by_id.get(v["ref"])
                if e is None or e["out"][0] != "ok":
                    raise _Miss()
                val = e["out"][1]
                if isinstance(val, dict) and "b" in val and "slice" in v:
                    raw = bytes.fromhex(val["b"])[v["slice"][0]:v["slice"][1]]
                    return {"b": raw.hex()}
                return val
            if "t" in v:
                return {"t": rl(v["t"])}
            if "cat" in v:
                return {"cat": rl(v["cat"])}
        return v

    s = copy.deepcopy(step)
    try:
        if "args" in s:
            s["args"] = rl(s["args"])
        if "kw" in s:
            s["kw"] = {k: rl(v) for k, v in s["kw"].items()}
    except _Miss:
        return None
    return s


def oracle_plan_for_call(plan, step, by_id):
    """Mini-plan: build (fresh) the object the step addresses plus whatever its recipe needs,
    make that one call.  No earlier call on any instance, class or module."""
    s = resolve_refs_from_history(step, by_id)
    if s is None:
        return None
    s = {k: v for k, v in s.items() if k not in ("fault", "c", "chk", "tag", "cls")}
    s["id"] = 1
    mini = {"objects": plan["objects"], "steps": [s], "observe": [], "fp": []}
    mini = compact(mini)
    mini.pop("meta", None)
    return mini
