"""Pristine processes: zygote, run children, oracle children (DESIGN.md 2.3).

A *zygote* is any process that has imported crysp from the working tree and never called into
it.  Every plan - a simulated run or an oracle query - executes in a child forked from the
zygote and ships its history back over a pipe as JSON.
"""
import json
import os
import signal
import sys
import traceback

from .base import HarnessError, jdump, setup_import_path

_ready = False
CHILD_TIMEOUT = int(os.environ.get("VERIF_CHILD_TIMEOUT", "300"))   # per forked child; runs take < 10 s on an idle machine


def zygote_init():
    global _ready
    if _ready:
        return
    if hasattr(sys, "set_int_max_str_digits"):
        sys.set_int_max_str_digits(0)      # histories carry wide bit-vector payloads as JSON integers
    setup_import_path()
    from . import world
    world.import_all()
    import crysp
    from .base import REPO
    got = os.path.dirname(os.path.dirname(os.path.abspath(crysp.__file__)))
    if got != REPO:
        raise HarnessError("crysp imported from %s, expected %s" % (got, REPO))
    _ready = True


def in_child(fn, *args):
    """Run fn(*args) in a forked child; return its JSON-able result.  The child's stdout and
    stderr go to /dev/null (the library prints in a few error paths)."""
    zygote_init()
    r, w = os.pipe()
    sys.stdout.flush()
    sys.stderr.flush()
    pid = os.fork()
    if pid == 0:
        code = 0
        try:
            os.close(r)
            signal.signal(signal.SIGALRM, signal.SIG_DFL)
            signal.alarm(CHILD_TIMEOUT)
            dn = os.open(os.devnull, os.O_WRONLY)
            os.dup2(dn, 1)
            os.dup2(dn, 2)
            try:
                out = {"ok": fn(*args)}
            except BaseException:
                out = {"harness_error": traceback.format_exc()}
            data = jdump(out).encode()
            with os.fdopen(w, "wb") as f:
                f.write(data)
        except BaseException:
            code = 3
        finally:
            os._exit(code)
    os.close(w)
    chunks = []
    with os.fdopen(r, "rb") as f:
        while True:
            b = f.read(1 << 16)
            if not b:
                break
            chunks.append(b)
    _, status = os.waitpid(pid, 0)
    data = b"".join(chunks)
    if not data:
        raise HarnessError("child died without result (status %r) running %s" % (status, fn.__name__))
    out = json.loads(data)
    if "harness_error" in out:
        raise HarnessError("child raised:\n" + out["harness_error"])
    return out["ok"]


def _exec(plan, count_mode):
    from . import world
    return world.exec_plan(plan, count_mode)


def run_plan(plan, count_mode=False):
    return in_child(_exec, plan, count_mode)


def resolve_faults(plan):
    """Turn fault positions given as a fraction u in [0,1) into absolute counts ('at'), one
    fault at a time, each time re-running the plan from a pristine child with the faults
    resolved so far firing for real.  The resolved plan is what is executed and what is written
    to a replay file, so that replay is single-pass and exact."""
    while True:
        todo = [s for s in plan["steps"] if s.get("fault") and s["fault"].get("at") is None
                and s["fault"]["kind"] in ("interrupt", "collab_fail")]
        if not todo:
            return plan
        hist = run_plan(plan, count_mode=True)
        by_id = {e["id"]: e for e in hist}
        s = todo[0]
        n = by_id[s["id"]].get("flt", {}).get("n", 0)
        u = s["fault"].get("u", 0.5)
        s["fault"]["n_seen"] = n
        s["fault"]["at"] = 1 + int(u * n) if n > 0 else 1


class Oracle(object):
    """Memoised 'what does this mini-plan do in a pristine process' queries."""

    def __init__(self):
        self.memo = {}
        self.queries = 0
        self.hits = 0

    def ask(self, plan):
        key = jdump(plan)
        if key in self.memo:
            self.hits += 1
            return self.memo[key]
        self.queries += 1
        h = run_plan(plan)
        if len(self.memo) > 20000:
            self.memo.clear()
        self.memo[key] = h
        return h
