"""crysim - deterministic simulation kernel for bdcht/crysp (see /verif/DESIGN.md)."""
