"""Reference layout model for crysp.padding (independent of crysp: plain ints/bytes/strings).

final_layout(scheme, prior_bits, piece, L) describes what the FINAL iterblocks call must emit for
a last piece `piece` of which the first L bits count (L = 8*len(piece) when no bit length is
given), after `prior_bits` message bits were already emitted by continuation calls:
   -> (blocks: list[bytes], counters: list[int], padbits: int or None)
counters[i] is the consumed-bit counter to be observed when block i is yielded: the number of
message bits up to and including that block, or 0 for a block that carries padding only.
padbits is the number of pad bits added, for the schemes that define a pad-bit counter.

Convention (DESIGN.md C09): the final call emits at least one block; an empty final piece under
zero padding is one all-zero block and under 'nopadding' one empty block.
"""


def bitstr(data, nbits):
    s = "".join(format(b, "08b") for b in data)
    return s[:nbits]


def to_bytes(s):
    assert len(s) % 8 == 0, len(s)
    return int(s, 2).to_bytes(len(s) // 8, "big") if s else b""


def split_blocks(b, n):
    return [b[i:i + n] for i in range(0, len(b), n)]


def final_layout(scheme, prm, prior_bits, piece, L=None):
    B = prm["B"]
    nB = B // 8
    if L is None:
        L = 8 * len(piece)
    msg = bitstr(piece, L)
    total = prior_bits + L
    padbits = None
    if scheme == "nopadding":
        assert L % 8 == 0
        data = piece[:L // 8]
        blocks = split_blocks(data, nB) or [b""]
        padded_len = None
        padbits = 0
    else:
        if scheme == "Nullpadding":
            q = (-L) % B
            if L == 0:
                q = B
            out = msg + "0" * q
            padbits = q
        elif scheme == "bitpadding":
            q = (B - L % B)
            out = msg + "1" + "0" * (q - 1)
            padbits = q
        elif scheme == "pkcs7":
            assert L % 8 == 0
            q = nB - (L // 8) % nB
            out = msg + format(q, "08b") * q
            padbits = 8 * q
        elif scheme == "X923":
            assert L % 8 == 0
            q = nB - (L // 8) % nB
            out = msg + "0" * (8 * (q - 1)) + format(q, "08b")
            padbits = 8 * q
        elif scheme in ("MDpadding", "SHApadding", "Blakepadding"):
            cs = 2 * prm["w"]
            extra = 2 if scheme == "Blakepadding" else 1
            N = (B - extra - cs - L) % B
            field = format(total % (1 << cs), "0%db" % cs)
            if scheme == "MDpadding":      # little-endian byte order of the length field
                fb = int(field, 2).to_bytes(cs // 8, "big")[::-1]
                field = "".join(format(x, "08b") for x in fb)
            mid = "1" + "0" * N
            if scheme == "Blakepadding":
                mid += "1" if prm["hsize"] in (256, 512) else "0"
            out = msg + mid + field
        else:
            raise ValueError(scheme)
        assert len(out) % B == 0, (scheme, len(out), B)
        blocks = split_blocks(to_bytes(out), nB)
    counters = []
    for i in range(len(blocks)):
        if i * B < L:
            counters.append(prior_bits + min(L, (i + 1) * B))
        else:
            counters.append(0)
    return blocks, counters, padbits


def continuation_layout(prm, prior_bits, piece):
    """A non-final piece (a whole number of blocks): its blocks, and the running counter."""
    B = prm["B"]
    nB = B // 8
    assert len(piece) % nB == 0
    blocks = split_blocks(piece, nB)
    counters = [prior_bits + (i + 1) * B for i in range(len(blocks))]
    return blocks, counters
