"""Reference Keccak-f[b] + pad10*1 + DUPLEX[f,pad10*1,r] (independent of crysp).

State = list of 25 lane ints (index x+5y), width w = b/25.  Bit i of the b-bit state string is
bit (i % w) of lane (i // w).  Message/outputs as byte strings use the Keccak convention: bit
8j+t of the string is bit t (LSB = 0) of byte j.
"""


def _rc_table():
    # round constants by the LFSR of the Keccak reference
    def rc_bit(t):
        R = 1
        for _ in range(t % 255):
            R <<= 1
            if R & 0x100:
                R ^= 0x171
        return R & 1
    out = []
    for ir in range(24):
        rc = 0
        for j in range(7):
            if rc_bit(j + 7 * ir):
                rc |= 1 << ((1 << j) - 1)
        out.append(rc)
    return out


def _rho_table():
    r = [[0] * 5 for _ in range(5)]
    x, y = 1, 0
    for t in range(24):
        r[x][y] = ((t + 1) * (t + 2) // 2)
        x, y = y, (2 * x + 3 * y) % 5
    return r


RC = _rc_table()
RHO = _rho_table()


def keccak_f(lanes, w):
    l = {1: 0, 2: 1, 4: 2, 8: 3, 16: 4, 32: 5, 64: 6}[w]
    nr = 12 + 2 * l
    mask = (1 << w) - 1

    def rol(v, n):
        n %= w
        return ((v << n) | (v >> (w - n))) & mask if n else v
    A = [[lanes[x + 5 * y] for y in range(5)] for x in range(5)]
    for ir in range(nr):
        C = [A[x][0] ^ A[x][1] ^ A[x][2] ^ A[x][3] ^ A[x][4] for x in range(5)]
        D = [C[(x - 1) % 5] ^ rol(C[(x + 1) % 5], 1) for x in range(5)]
        A = [[A[x][y] ^ D[x] for y in range(5)] for x in range(5)]
        Bm = [[0] * 5 for _ in range(5)]
        for x in range(5):
            for y in range(5):
                Bm[y][(2 * x + 3 * y) % 5] = rol(A[x][y], RHO[x][y])
        A = [[Bm[x][y] ^ ((~Bm[(x + 1) % 5][y]) & mask & Bm[(x + 2) % 5][y]) for y in range(5)] for x in range(5)]
        A[0][0] ^= RC[ir] & mask
    return [A[i % 5][i // 5] for i in range(25)]


def bits_of(m, nbits):
    """int whose bit i is bit i of the message string (Keccak LSB-first convention)."""
    v = int.from_bytes(m, "little")
    return v & ((1 << nbits) - 1)


class DuplexRef(object):
    def __init__(self, b, r):
        assert b in (25, 50, 100, 200, 400, 800, 1600) and 0 < r < b
        self.b, self.r, self.w = b, r, b // 25
        self.S = [0] * 25

    def duplexing(self, m, nbits=None, outlen=None):
        if nbits is None:
            nbits = 8 * len(m)
        r = self.r
        assert nbits <= r - 2
        if outlen is None:
            outlen = r
        assert outlen <= r
        P = bits_of(m, nbits) | (1 << nbits) | (1 << (r - 1))
        w = self.w
        mask = (1 << w) - 1
        self.S = [self.S[i] ^ ((P >> (i * w)) & mask) for i in range(25)]
        self.S = keccak_f(self.S, w)
        z = 0
        for i in range(25):
            z |= self.S[i] << (i * w)
        z &= (1 << outlen) - 1
        return z.to_bytes((outlen + 7) // 8, "little")
