"""Reference RC4 stream object (independent of crysp): KSA + PRGA on plain ints."""


class RC4Ref(object):
    def __init__(self, key):
        key = bytes(key)
        assert 1 <= len(key) <= 256
        S = list(range(256))
        j = 0
        for i in range(256):
            j = (j + S[i] + key[i % len(key)]) & 0xFF
            S[i], S[j] = S[j], S[i]
        self.S, self.i, self.j = S, 0, 0

    def keystream(self, n):
        S = self.S
        out = []
        i, j = self.i, self.j
        for _ in range(n):
            i = (i + 1) & 0xFF
            j = (j + S[i]) & 0xFF
            S[i], S[j] = S[j], S[i]
            out.append(S[(S[i] + S[j]) & 0xFF])
        self.i, self.j = i, j
        return out

    def enc(self, m):
        ks = self.keystream(len(m))
        return bytes(a ^ b for a, b in zip(m, ks))

    dec = enc
