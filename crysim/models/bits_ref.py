"""Reference (value, size) bit-vector algebra for crysp.bits.Bits (independent of crysp).

A vector is a pair (v, n) with 0 <= v < 2**n; bit i of the vector is (v >> i) & 1.
An int operand k behaves like the vector (k, k.bit_length()).
"""


def mask(n):
    return (1 << n) - 1


def as_vec(x):
    if isinstance(x, int):
        return (x, x.bit_length())
    return tuple(x)


def binop(op, a, b):
    (va, na), (vb, nb) = as_vec(a), as_vec(b)
    n = max(na, nb)
    if op == "+":
        return ((va + vb) & mask(n), n)
    if op == "-":
        return ((va - vb) & mask(n), n)
    if op == "&":
        return (va & vb, n)
    if op == "|":
        return (va | vb, n)
    if op == "^":
        return (va ^ vb, n)
    raise ValueError(op)


def mul(a, b):
    (va, na), (vb, _) = as_vec(a), as_vec(b)
    return ((va * vb) & mask(na), na)


def inv(a):
    v, n = a
    return (v ^ mask(n), n)


def neg(a):
    v, n = a
    return ((-v) & mask(n), n)


def shl(a, k):
    v, n = a
    return ((v << k) & mask(n), n)


def shr(a, k):
    v, n = a
    return (v >> k, n)


def rol(a, k):
    v, n = a
    k %= n
    return (((v << k) | (v >> (n - k))) & mask(n), n) if k else (v, n)


def ror(a, k):
    v, n = a
    k %= n
    return (((v >> k) | (v << (n - k))) & mask(n), n) if k else (v, n)


def concat(a, b):
    (va, na), (vb, nb) = as_vec(a), as_vec(b)
    return (va | (vb << na), na + nb)


def split(a, k):
    v, n = a
    out = []
    i = 0
    while i < n:
        w = min(k, n - i)
        out.append(((v >> i) & mask(w), w))
        i += k
    return out


def select(a, idx):
    v, _ = a
    r = 0
    for j, i in enumerate(idx):
        r |= ((v >> i) & 1) << j
    return (r, len(idx))


def assign(a, idx, bits):
    """set bit idx[j] := bits[j] in order (later assignments win)."""
    v, n = a
    assert len(idx) == len(bits)
    for i, b in zip(idx, bits):
        assert 0 <= i < n
        v = (v & ~(1 << i)) | ((b & 1) << i)
    return (v, n)


def bits_of(val, n):
    return [(val >> i) & 1 for i in range(n)]


def resize(a, n2):
    v, _ = a
    return (v & mask(n2), n2)


def zeroextend(a, n2):
    v, n = a
    return (v, max(n, n2))


def signextend(a, n2):
    v, n = a
    if n2 <= n:
        return (v, n)
    if (v >> (n - 1)) & 1:
        v |= mask(n2) ^ mask(n)
    return (v, n2)


def to_int(a, signed=False):
    v, n = a
    if signed and n > 0 and (v >> (n - 1)) & 1:
        return v - (1 << n)
    return v


def to_str(a):
    v, n = a
    return "".join(str((v >> i) & 1) for i in range(n))


def hw(a):
    return bin(a[0]).count("1")


def to_bytes(a):
    """bitstream representation: bit 8j+t of the vector is bit (7-t) of byte j; zero-filled."""
    v, n = a
    out = []
    for j in range((n + 7) // 8):
        byte = 0
        for t in range(8):
            if (v >> (8 * j + t)) & 1:
                byte |= 1 << (7 - t)
        out.append(byte)
    return bytes(out)
